"""C20 bounded check: Declaration iteration, membership, flattened, + and - on all interface DAGs <=4 and
declarations built from nested argument trees; alsoProvides/noLongerProvides/directlyProvidedBy in terms of them."""
import itertools
import sys

from zope.interface import (Interface, Declaration, implementedBy, classImplements, directlyProvides, alsoProvides,
                            noLongerProvides, directlyProvidedBy, providedBy)

from falsify import common

KNOWN_ADD = 'C20-add-placement-literal'


_impl_cache = {}


def impl_spec(ifs, ks):
    """implementedBy(a class declared to implement ifs[k] for k in ks, subclass of a class implementing ifs[0])"""
    key = (tuple(id(i) for i in ifs), ks)
    if key not in _impl_cache:
        Base = type(common.uname('KB'), (object,), {})
        classImplements(Base, ifs[0])
        K = type(common.uname('KI'), (Base,), {})
        classImplements(K, *[ifs[k] for k in ks])
        _impl_cache[key] = implementedBy(K)
    return _impl_cache[key]


def flat(args, ifs):
    """expected iteration order of Declaration(*args): nested sequences/declarations flattened in place, class
    specifications contribute their declared then inherited interfaces, no duplicates"""
    out = []

    def add(x):
        if isinstance(x, int):
            if not any(ifs[x] is y for y in out):
                out.append(ifs[x])
        elif isinstance(x, tuple) and x and x[0] == 'impl':
            for k in x[1]:
                if not implementedBy_base_implies(ifs, k):
                    add(k)
            add(0)
        else:
            for y in x:
                add(y)
    add(args)
    return out


def implementedBy_base_implies(ifs, k):
    # classImplements drops an interface the base class already implies (it is then listed through the base)
    return ifs[0].isOrExtends(ifs[k]) if k != 0 else True


def mk(args, ifs, as_decl_depth=0):
    def conv(x, depth):
        if isinstance(x, int):
            return ifs[x]
        if isinstance(x, tuple) and x and x[0] == 'impl':
            return impl_spec(ifs, x[1])
        inner = [conv(y, depth + 1) for y in x]
        return Declaration(*inner) if depth % 2 == 1 else tuple(inner)
    return Declaration(*[conv(a, 1) for a in args])


def check_pair(shape, a_args, b_args):
    ifs = common.build_interfaces(shape)
    A, B = mk(a_args, ifs), mk(b_args, ifs)
    la, lb = flat(a_args, ifs), flat(b_args, ifs)
    bad = []

    def ids(xs):
        return [id(x) for x in xs]
    if ids(list(A)) != ids(la) or ids(list(B)) != ids(lb):
        bad.append(('iteration', 'list(Declaration%r) is %s, expected %s' % (a_args, common.names(list(A)), common.names(la)), None))
    for I in ifs:
        if (I in A) is not any(I is x for x in la):
            bad.append(('contains', '%s in Declaration%r is %r' % (I.__name__, a_args, I in A), None))
    if ids(list(A.flattened())) != ids(list(A.__iro__)):
        bad.append(('flattened', 'flattened() is not __iro__', None))
    exp_fl = set()
    for x in la:
        exp_fl |= {id(y) for y in x.__iro__}
    if la and {id(x) for x in A.flattened()} != exp_fl | {id(Interface)}:
        bad.append(('flattened-set', 'flattened() of Declaration%r is not exactly the interfaces and everything they extend' % (a_args,), None))
    before = (ids(list(A)), ids(list(B)))
    sub = list(A - B)
    exp_sub = [i for i in la if not any(i.isOrExtends(j) for j in lb)]
    if ids(sub) != ids(exp_sub):
        bad.append(('sub', 'Declaration%r - Declaration%r is %s, expected %s' % (a_args, b_args, common.names(sub), common.names(exp_sub)), None))
    add = list(A + B)
    new = [i for i in lb if not any(i is x for x in la)]
    if {id(x) for x in add} != {id(x) for x in la + lb} or len(set(ids(add))) != len(add):
        bad.append(('add-set', 'A + B = %s does not contain exactly the interfaces of both without duplicates (A=%s, B=%s)' % (common.names(add), common.names(la), common.names(lb)), None))
    if ids([i for i in add if any(i is x for x in la)]) != ids(la):
        bad.append(('add-order-of-A', "A's relative order is not preserved in A + B = %s" % common.names(add), None))
    front = [i for i in new if any(i.extends(x) for x in la)]
    lit = front + la + [i for i in new if not any(i is f for f in front)]
    if ids(add) != ids(lit):
        # recorded finding: the implementation tests "extends something already in the growing result", which differs from
        # the literal statement exactly when B lists j before i with i extending j, j not in A, i extending nothing in A
        region = any((i.extends(j) and not any(j is x for x in la) and not any(i.extends(x) for x in la))
                     for i in new for j in new if i is not j)
        bad.append(('add-placement', 'A + B = %s, the literal statement (new extenders of A first, the others at the end) gives %s  (A=%s, B=%s)' % (
            common.names(add), common.names(lit), common.names(la), common.names(lb)), KNOWN_ADD if region else None))
    if (ids(list(A)), ids(list(B))) != before:
        bad.append(('operands-modified', '+ or - modified an operand', None))
    # "none of these operations modifies its operands": every observer of both operands answers as before, and the
    # operations give the same results when repeated and in the other order (no state left behind by an earlier operation)
    for X, lx, nm in ((A, la, 'A'), (B, lb, 'B')):
        for I in ifs:
            if (I in X) is not any(I is x for x in lx):
                bad.append(('operands-modified-contains', 'after A + B and A - B: %s in %s is %r, the interfaces of %s are %s' % (
                    I.__name__, nm, I in X, nm, common.names(lx)), None))
        if lx and {id(x) for x in X.flattened()} != {id(y) for x in lx for y in x.__iro__} | {id(Interface)}:
            bad.append(('operands-modified-flattened', 'after A + B and A - B: flattened() of %s changed' % nm, None))
    if ids(list(A + B)) != ids(add) or ids(list(A - B)) != ids(sub):
        bad.append(('operands-modified-repeat', 'A + B / A - B give another result when repeated (A=%s, B=%s)' % (common.names(la), common.names(lb)), None))
    rev = list(B + A)
    if {id(x) for x in rev} != {id(x) for x in la + lb} or len(set(ids(rev))) != len(rev) or \
            ids([i for i in rev if any(i is x for x in lb)]) != ids(lb):
        bad.append(('operands-modified-reverse', 'B + A after A + B = %s is not the ordered union keeping B\'s order (A=%s, B=%s)' % (
            common.names(rev), common.names(la), common.names(lb)), None))
    if ids(list(A + A)) != ids(la) or list(A - A) != []:
        bad.append(('self-operations', 'A + A / A - A are not A / empty after the earlier operations (A=%s)' % common.names(la), None))
    return bad


def check_object(shape, first, extra, remove):
    ifs = common.build_interfaces(shape)
    K = type(common.uname('K'), (object,), {})
    classImplements(K, ifs[0])
    ob = K()
    bad = []
    directlyProvides(ob, *[ifs[i] for i in first])
    d0 = [i for i in flat(first, ifs) if not implementedBy(K).isOrExtends(i)]
    if [id(x) for x in directlyProvidedBy(ob)] != [id(x) for x in d0]:
        bad.append(('directlyProvidedBy', 'directlyProvidedBy after directlyProvides%r is %s, expected %s' % (first, common.names(list(directlyProvidedBy(ob))), common.names(d0)), None))
    alsoProvides(ob, *[ifs[i] for i in extra])
    d1 = list(directlyProvidedBy(ob))
    exp1 = d0 + [ifs[i] for i in extra if not any(ifs[i] is x for x in d0) and not implementedBy(K).isOrExtends(ifs[i])]
    if {id(x) for x in d1} != {id(x) for x in exp1}:
        bad.append(('alsoProvides', 'alsoProvides%r after %r gives %s, expected the union %s' % (extra, first, common.names(d1), common.names(exp1)), None))
    R = ifs[remove]
    try:
        noLongerProvides(ob, R)
        raised = False
    except ValueError:
        raised = True
    d2 = list(directlyProvidedBy(ob))
    exp2 = [i for i in d1 if not i.isOrExtends(R)]
    if [id(x) for x in d2] != [id(x) for x in exp2]:
        bad.append(('noLongerProvides', 'noLongerProvides(%s) leaves %s directly provided, expected %s (everything that is or extends it removed)' % (R.__name__, common.names(d2), common.names(exp2)), None))
    if raised != implementedBy(K).isOrExtends(R):
        bad.append(('noLongerProvides-error', 'ValueError raised=%r although the class %s provide it' % (raised, 'does' if implementedBy(K).isOrExtends(R) else 'does not'), None))
    return bad


def replay(kind, *args):
    bad = check_pair(*args) if kind == 'pair' else check_object(*args)
    for sig, what, known in bad[:6]:
        print('violated:', sig, what, '(recorded finding)' if known else '')
    sys.exit(1 if bad else 0)


def arg_trees(n):
    idx = list(range(n))
    out = [()]
    for k in (1, 2):
        for t in itertools.permutations(idx, k):
            out.append(t)
    out += [((0,), 1) if n > 1 else ((0,),), ((0, (n - 1,)),), (n - 1, (0, n - 1))]
    out += [(('impl', (n - 1,)),), (('impl', (n - 1,)), n - 1, 0), (0, ('impl', (n - 1,))), (('impl', ()), 0)]
    return out


def run(ctx):
    nmax = 3 if ctx.tier == 'quick' else 4
    ctx.rule = ('every ordered DAG shape with <=%d interfaces x all pairs of declarations built from argument trees of depth '
                '<=2 (tuples and nested Declarations, <=2 leaves); directlyProvides/alsoProvides/noLongerProvides sequences on an '
                'instance of a class implementing the first interface; distinct = (shape, arguments)' % nmax)
    ctx.bounds = 'interfaces<=%d, argument leaves<=3' % nmax
    for n in range(1, nmax + 1):
        for shape in common.all_shapes(n, 2):
            trees = arg_trees(n)
            for a in trees:
                for b in trees:
                    if ctx.too_many() or ctx.out_of_time():
                        return
                    ctx.case(('pair', shape, a, b))
                    for sig, what, known in check_pair(shape, a, b):
                        ctx.violation(known or (sig + repr((shape, a, b))), what, 'from falsify.C20 import replay\nreplay("pair", %r, %r, %r)\n' % (shape, a, b), known)
            for first in [(), (0,), (n - 1,), (n - 1, 0)]:
                for extra in [(0,), (n - 1,), tuple(range(n))]:
                    for remove in range(n):
                        ctx.case(('obj', shape, first, extra, remove))
                        for sig, what, known in check_object(shape, first, extra, remove):
                            ctx.violation(sig + repr((shape, first, extra, remove)), what, 'from falsify.C20 import replay\nreplay("obj", %r, %r, %r, %r)\n' % (shape, first, extra, remove), known)
    ctx.sample({'A': '(2, (0, 2))', 'B': '((0,), 1)', 'laws': 'iteration, in, flattened, -, +, operands unchanged'})
