"""C02 bounded check: isOrExtends / extends / __sro__ equal reachability over the current __bases__ after any
sequence of __bases__ reassignments anywhere in a mixed specification graph (interfaces incl. equal-named distinct
ones, class specifications of a class hierarchy, instance declarations, plain Declarations)."""
import sys

from zope.interface import (Interface, Declaration, implementedBy, classImplements, directlyProvides, providedBy)
from zope.interface.interface import InterfaceClass

from falsify import common


def reach(s):
    return common.ancestors(s)


def build(spec):
    shape, steps = spec
    ifs = common.build_interfaces(shape)
    # (distinct interfaces with equal name and module are outside the domain: the library keys weak dependents and
    # implied sets by equality, so such twins are one key by design -- DESIGN 1.3)
    Base = type(common.uname('KB'), (object,), {})
    Mid = type(common.uname('KM'), (Base,), {})
    Leaf = type(common.uname('KL'), (Mid,), {})
    Other = type(common.uname('KO'), (object,), {})
    classImplements(Base, ifs[0])
    classImplements(Leaf, ifs[-3])
    ob = Leaf()
    directlyProvides(ob, ifs[1 % len(ifs)])
    decls = [Declaration(ifs[0], ifs[-3]), Declaration(implementedBy(Mid))]
    impl = [implementedBy(c) for c in (Base, Mid, Leaf, Other)]
    specs = ifs + impl + decls + [providedBy(ob)]
    return ifs, impl, decls, specs, ob


def checkall(specs, tag):
    bad = []
    for s in specs:
        r = reach(s)
        rid = {id(x) for x in r} | {id(Interface)}
        sro = list(s.__sro__)
        if {id(x) for x in sro} != rid or len(sro) != len(rid):
            bad.append(('sro', '%s: __sro__ of %r is %s, reachable over current __bases__ (plus Interface): %s' % (
                tag, s, common.names(sro), common.names(r))))
        for t in specs + [Interface]:
            e = any(t == x for x in r) or t is Interface     # equal-named interfaces are one key by design
            if s.isOrExtends(t) is not e:
                bad.append(('isOrExtends', '%s: %r.isOrExtends(%r) is %r, reachability says %r' % (tag, s, t, s.isOrExtends(t), e)))
            ex = e and not (s == t)
            if bool(s.extends(t)) is not ex:
                bad.append(('extends', '%s: %r.extends(%r) is %r, expected %r' % (tag, s, t, s.extends(t), ex)))
            if bool(s.extends(t, strict=False)) is not e:
                bad.append(('extends-nonstrict', '%s: %r.extends(%r, strict=False) is %r, expected %r' % (tag, s, t, s.extends(t, False), e)))
        if bad:
            return bad
    return bad


def play(spec):
    ifs, impl, decls, specs, ob = build(spec)
    bad = checkall(specs, 'fresh')
    n = len(specs) ** 2
    movable = ifs + impl + decls
    for si, (k, newb) in enumerate(spec[1]):
        if bad:
            break
        if newb == 'rename':
            # an interface that is already wired into the graph receives its final name later (dynamically generated
            # interfaces): the specifications that hold it as a key must keep finding it
            s = ifs[k % len(ifs)]
            s.__name__ = common.uname('IRenamed')
            bad = checkall(specs, 'after step %d (renaming an interface to %s)' % (si, s.__name__))
            n += len(specs) ** 2
            continue
        s = movable[k % len(movable)]
        cands = [x for x in ifs + impl if not any(s is y for y in reach(x))]      # keep the graph acyclic
        nb = []
        for j in newb:
            if cands:
                c = cands[j % len(cands)]
                if not any(c is y for y in nb):
                    nb.append(c)
        if isinstance(s, InterfaceClass) and not nb:
            nb = [Interface]
        try:
            s.__bases__ = tuple(nb)
        except TypeError:
            continue
        bad = checkall(specs, 'after re-basing step %d (%r.__bases__ = %s)' % (si, s, common.names(nb)))
        n += len(specs) ** 2
    return bad, n


def random_spec(rnd):
    n = rnd.randint(3, 5)
    shape = common.random_shape(rnd, n, 2)
    steps = [(rnd.randrange(20), tuple(rnd.randrange(20) for _ in range(rnd.randint(0, 2)))) for _ in range(rnd.randint(1, 4))]
    if rnd.random() < 0.35:
        steps.insert(rnd.randrange(len(steps) + 1), (rnd.randrange(20), 'rename'))
    return (shape, tuple(steps))


def replay(spec):
    bad, _ = play(spec)
    for sig, what in bad[:6]:
        print('violated:', sig, what)
    sys.exit(1 if bad else 0)


def run(ctx):
    ctx.rule = ('random mixed graphs: interface DAG <=5, class specifications of a '
                '3-deep class chain and an unrelated class, an instance declaration, two plain Declarations; <=4 acyclic '
                '__bases__ reassignments at any node, in a third of the histories one interface is renamed (__name__ assigned) on the way; after each, isOrExtends/extends (strict and not)/__sro__ of every '
                'specification against graph reachability computed independently; distinct = (graph, history)')
    ctx.bounds = 'interfaces<=7, history<=4'
    trials = 300 if ctx.tier == 'quick' else 4000
    for t in range(trials):
        if ctx.out_of_time() or ctx.too_many():
            return
        spec = random_spec(ctx.rnd)
        bad, n = play(spec)
        ctx.evaluations += n
        ctx.distinct.add(spec)
        if t == 3:
            ctx.sample({'shape': spec[0], 'rebasings': spec[1]})
        for sig, what in bad[:1]:
            ctx.violation(sig, what, 'from falsify.C02 import replay\nreplay(%r)\n' % (spec,))
