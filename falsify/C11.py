"""C11 bounded check: re-entrant mutation at every point where a lookup calls out (lazy required sequence,
__providedBy__ descriptor, overridden uncached lookups, factories, hooks that edit the hook list), crossed with
every mutation kind.  Oracles: the interpreter survives (the harness is a sub-process), no stray write lands in
unrelated dictionaries, the interrupted call returns the answer from before or after the mutation, the next
lookup equals a cold registry's, reference counts return to their level (no leak on normal and error exits);
thorough tier: lookup threads against a mutating thread."""
import gc
import sys
import threading

from zope.interface import Interface, implementer, providedBy, directlyProvides
from zope.interface.adapter import AdapterLookup, AdapterRegistry, VerifyingAdapterLookup, VerifyingAdapterRegistry
from zope.interface.interface import adapter_hooks


class IR(Interface):
    pass


class IR2(IR):
    pass


class IP(Interface):
    pass


ENTRY = ['lookup', 'lookup1', 'lookupAll', 'subscriptions', 'queryAdapter', 'adapter_hook', 'queryMultiAdapter', 'subscribers']
MUTATION = ['register', 'unregister', 'subscribe', 'unsubscribe', 'rebase', 'raise', 'changed']
POINT = ['uncached', 'lazy-required', 'providedBy-descriptor', 'factory']


def make(flavour, point, mutation, entry, name):
    hook = []
    junk = []

    def fire():
        while hook:
            hook.pop()()
        junk.append([{} for _ in range(60)])

    LBase = AdapterLookup if flavour == 'A' else VerifyingAdapterLookup

    class L(LBase):
        def _uncached_lookup(self, required, provided, name=''):
            r = LBase._uncached_lookup(self, required, provided, name)
            if point == 'uncached':
                fire()
            return r

        def _uncached_lookupAll(self, required, provided):
            r = LBase._uncached_lookupAll(self, required, provided)
            if point == 'uncached':
                fire()
            return r

        def _uncached_subscriptions(self, required, provided):
            r = LBase._uncached_subscriptions(self, required, provided)
            if point == 'uncached':
                fire()
            return r

    RBase = AdapterRegistry if flavour == 'A' else VerifyingAdapterRegistry

    class R(RBase):
        LookupClass = L
    base = R()
    other = R()
    reg = R((base,))
    old, new = (lambda *a: ('old',) + a), (lambda *a: ('new',) + a)
    reg.register([IR], IP, name, old)
    reg.subscribe([IR], IP, old)

    class Boom(Exception):
        pass

    def mutate():
        if mutation == 'register':
            reg.register([IR], IP, name, new)
            reg.register([IR], IP, 'zz', new)
        elif mutation == 'unregister':
            reg.unregister([IR], IP, name)
        elif mutation == 'subscribe':
            reg.subscribe([IR], IP, new)
        elif mutation == 'unsubscribe':
            reg.unsubscribe([IR], IP, old)
        elif mutation == 'rebase':
            other.register([IR], IP, name, new)
            reg.unregister([IR], IP, name)
            reg.__bases__ = (other,)
        elif mutation == 'changed':
            reg.changed(reg)
            base.changed(base)
        elif mutation == 'raise':
            raise Boom('from the callback')

    @implementer(IR)
    class Ob:
        pass
    ob = Ob()
    if point == 'providedBy-descriptor':
        class Desc:
            def __get__(self, inst, cls):
                if inst is not None:
                    fire()
                return providedBy(Ob2())

        @implementer(IR)
        class Ob2:
            pass

        class ObD:
            __providedBy__ = Desc()
        ob = ObD()

    class Lazy:
        def __iter__(self):
            fire()
            return iter((IR,))

        def __len__(self):
            return 1

    def call():
        req = Lazy() if point == 'lazy-required' else (IR,)
        if entry == 'lookup':
            return reg.lookup(req, IP, name)
        if entry == 'lookup1':
            return reg.lookup1(IR, IP, name)
        if entry == 'lookupAll':
            return dict(reg.lookupAll(req, IP)).get(name)
        if entry == 'subscriptions':
            return tuple(reg.subscriptions(req, IP))
        if entry == 'queryAdapter':
            return reg.queryAdapter(ob, IP, name)
        if entry == 'adapter_hook':
            return reg.adapter_hook(IP, ob, name)
        if entry == 'queryMultiAdapter':
            return reg.queryMultiAdapter((ob,), IP, name)
        if entry == 'subscribers':
            return tuple(reg.subscribers((ob,), IP))
    if point == 'factory':
        def fac(*a):
            fire()
            return ('made',) + a
        reg.register([IR], IP, name, fac)
        reg.subscribe([IR], IP, fac)
    return reg, base, other, hook, junk, mutate, call, Boom, (old, new)


def applicable(point, entry):
    if point == 'lazy-required':
        return entry in ('lookup', 'lookupAll', 'subscriptions')
    if point == 'providedBy-descriptor':
        return entry in ('queryAdapter', 'adapter_hook', 'queryMultiAdapter', 'subscribers')
    if point == 'factory':
        return entry in ('queryAdapter', 'adapter_hook', 'queryMultiAdapter', 'subscribers')
    return True


def one(flavour, point, mutation, entry, name):
    if not applicable(point, entry):
        return []
    bad = []
    tag = '%s registry, call-out %s, mutation %s, entry %s, name %r' % (flavour, point, mutation, entry, name)
    reg, base, other, hook, junk, mutate, call, Boom, vals = make(flavour, point, mutation, entry, name)
    keep = gc.get_referents(reg._v_lookup)
    hook.append(mutate)
    try:
        first = call()
        raised = False
    except Boom:
        raised = True
        first = None
    except Exception as e:
        bad.append(('exception', '%s: the interrupted call raised %r' % (tag, e)))
        return bad
    if hook:
        return []           # the call-out point was not reached by this entry point
    if raised != (mutation == 'raise'):
        bad.append(('exception-propagation', '%s: exception from the callback %s' % (tag, 'was swallowed' if not raised else 'appeared from nowhere')))
    stray = sum(1 for lst in junk for d in lst if d)
    if stray:
        bad.append(('memory-corruption', '%s: %d unrelated dictionaries allocated during the call-out were written to '
                    '(use of a freed cache dictionary)' % (tag, stray)))
    # afterwards: every entry point must answer like a cold registry with the same registrations
    del junk[:]
    try:
        after = []
        for _ in range(2):
            after.append(call())
    except Exception as e:
        bad.append(('exception-after', '%s: call after the mutation raised %r' % (tag, e)))
        return bad
    R = type(reg)
    cold_other = AdapterRegistry() if flavour == 'A' else VerifyingAdapterRegistry()
    cold = {}
    for r in (base, other, reg):
        c = (AdapterRegistry if flavour == 'A' else VerifyingAdapterRegistry)(tuple(cold[id(b)] for b in r.__bases__))
        for a in r.allRegistrations():
            c.register(*a)
        for a in r.allSubscriptions():
            c.subscribe(*a)
        cold[id(r)] = c
    creg = cold[id(reg)]

    def norm(x):
        if isinstance(x, tuple):
            return tuple(norm(y) for y in x)
        return getattr(x, '__name__', None) and (x.__name__, id(x)) or (type(x).__name__ if not isinstance(x, (str, type(None))) else x)
    if point != 'factory' and entry in ('lookup', 'lookup1', 'lookupAll'):
        exp = creg.lookup((IR,), IP, name)
        for a in after:
            if a is not exp:
                bad.append(('stale-cache', '%s: after the re-entrant mutation the lookup keeps answering %r; a registry that never '
                            'looked up anything answers %r (the answer computed before the mutation survived in the cache)' % (tag, a, exp)))
    if point != 'factory' and entry == 'subscriptions':
        exp = tuple(creg.subscriptions((IR,), IP))
        for a in after:
            if tuple(map(id, a)) != tuple(map(id, exp)):
                bad.append(('stale-cache', '%s: stale subscriptions after the re-entrant mutation' % tag))
    del keep
    return bad


class IPA(IP):
    pass


class IPB(IP):
    pass


class IPC(IP):
    pass


# single mutations only: the statement speaks of a lookup interrupted by *a* mutation; a callback that performs two of them
# lets a walk legitimately combine the state before the first with the state after the second (DESIGN 10.4)
WALK_MUT = ['unregister A', 'unregister B', 'unregister C', 'unsubscribe A', 'unsubscribe B', 'unsubscribe C', 'register D']


WALK_WORLDS = ['', 'C', 'B', 'BC', 'A']      # which of the three extenders are registered for IR2 only (not applicable to IR)


def walk_world(flavour, elsewhere='', subs=False):
    """a registry whose nested containers call out (documented override point _mappingType): the k-th get() of a walk
    runs a mutation; provided interface IP has three registered extenders"""
    class FDict(dict):
        def get(self, k, d=None):
            st = FDict.state
            st['count'] += 1
            if st['armed'] is not None and st['count'] == st['armed'][0]:
                f = st['armed'][1]
                st['armed'] = None
                f()
            return dict.get(self, k, d)
    FDict.state = {'count': 0, 'armed': None}
    RBase = AdapterRegistry if flavour == 'A' else VerifyingAdapterRegistry

    class R(RBase):
        _mappingType = FDict
    reg = R()
    for i, n in ((IPA, 'A'), (IPB, 'B'), (IPC, 'C')):
        # either adapters or subscribers, so that removing one removes the last mention of its provided interface
        if subs:
            reg.subscribe([IR2 if n in elsewhere else IR], i, 'sub-' + n)
        else:
            reg.register([IR2 if n in elsewhere else IR], i, '', 'adapter-' + n)
    reg._walk_elsewhere = elsewhere
    return reg, FDict


def walk_mutation(reg, m):
    tbl = {'A': IPA, 'B': IPB, 'C': IPC}
    kind, what = m.split(' ')
    for x in what.split('+'):
        r = IR2 if x in reg._walk_elsewhere else IR
        if kind == 'unregister':
            reg.unregister([r], tbl[x], '')
        elif kind == 'unsubscribe':
            reg.unsubscribe([r], tbl[x], 'sub-' + x)
        elif kind == 'register':
            class IPD(IP):
                pass
            reg.register([IR], IPD, '', 'adapter-D')
            reg.subscribe([IR], IPD, 'sub-D')


def walk(flavour, entry, mutation, elsewhere=''):
    """interrupt the uncached walk of `entry` at every call-out k: the answer must be the one from before or from after
    the mutation, and the next call must give the after-answer"""
    bad = []

    def ask(reg):
        if entry == 'lookup':
            return reg.lookup((IR,), IP, '')
        if entry == 'lookup1':
            return reg.lookup1(IR, IP, '')
        if entry == 'lookupAll':
            return tuple(sorted(dict(reg.lookupAll((IR,), IP)).items()))
        return tuple(reg.subscriptions((IR,), IP))
    reg, FDict = walk_world(flavour, elsewhere, entry == 'subscriptions')
    FDict.state['count'] = 0
    before = ask(reg)
    total = FDict.state['count']
    n = 0
    for k in range(1, total + 1):
        reg, FDict = walk_world(flavour, elsewhere, entry == 'subscriptions')
        FDict.state['count'] = 0
        FDict.state['armed'] = (k, lambda: walk_mutation(reg, mutation))
        n += 1
        try:
            got = ask(reg)
        except Exception as e:
            bad.append(('walk-exception', '%s registry (extenders %r registered for another required interface), %s interrupted at call-out %d by %r: raised %r' % (flavour, elsewhere, entry, k, mutation, e)))
            break
        if FDict.state['armed'] is not None:
            continue
        after = ask(reg)
        ref, _ = walk_world(flavour, elsewhere, entry == 'subscriptions')
        walk_mutation(ref, mutation)
        exp_after = ask(ref)
        if after != exp_after:
            bad.append(('walk-stale', '%s registry, %s after an interruption at call-out %d by %r answers %r, a registry that was '
                        'never interrupted answers %r (extenders %r registered for another required interface)' % (flavour, entry, k, mutation, after, exp_after, elsewhere)))
            break
        if got != before and got != exp_after:
            bad.append(('walk-atomicity', '%s registry, %s interrupted at call-out %d by %r returned %r: neither the answer before '
                        'the mutation %r nor the one after it %r (extenders %r registered for another required interface)' % (flavour, entry, k, mutation, got, before, exp_after, elsewhere)))
            break
    return bad, n


def refcounts(flavour):
    """reference balance on normal and error exits of the lookup entry points"""
    bad = []
    R = AdapterRegistry if flavour == 'A' else VerifyingAdapterRegistry
    reg = R()

    @implementer(IR)
    class Ob:
        pass

    class Boom(Exception):
        pass

    def good(o):
        return None

    def failing(o):
        raise Boom()
    reg.register([IR], IP, '', good)
    reg.register([IR], IP, 'bad', failing)
    reg.subscribe([IR], IP, failing)
    ob = Ob()
    req = (IR,)

    def cycles(f, n=200):
        for _ in range(n):
            try:
                f()
            except (Boom, TypeError, ValueError):
                pass
    probes = [
        ('adapter_hook factory raises', lambda: reg.adapter_hook(IP, ob, 'bad'), [failing, ob]),
        ('queryAdapter factory raises', lambda: reg.queryAdapter(ob, IP, 'bad'), [failing, ob]),
        ('queryAdapter returns None', lambda: reg.queryAdapter(ob, IP, ''), [good, ob]),
        ('lookup unhashable provided', lambda: reg.lookup(req, [], ''), [req, IR]),
        ('lookupAll unhashable provided', lambda: reg.lookupAll(req, []), [req, IR]),
        ('subscriptions unhashable provided', lambda: reg.subscriptions(req, []), [req, IR]),
        ('lookup bad name', lambda: reg.lookup(req, IP, 3), [req, IR]),
        ('lookup1 default', lambda: reg.lookup1(IR2, IP, 'nope', ob), [ob]),
        ('subscribers factory raises', lambda: reg.subscribers((ob,), IP), [failing, ob]),
    ]
    for what, f, objs in probes:
        cycles(f, 5)
        gc.collect()
        before = [sys.getrefcount(o) for o in objs]
        cycles(f, 200)
        gc.collect()
        after = [sys.getrefcount(o) for o in objs]
        for o, b, a in zip(objs, before, after):
            if a - b > 20:
                bad.append(('leak', '%s registry: %s: reference count of %r grew by %d over 200 calls' % (flavour, what, o, a - b)))
    return bad


def hooklist():
    bad = []

    class I(Interface):
        pass
    calls = []

    def h1(i, o):
        calls.append('h1')
        del adapter_hooks[:]
        return None

    def h2(i, o):
        calls.append('h2')
        return None
    adapter_hooks[:] = [h1, h2, h2, h2]
    try:
        r = I(object(), 'alt')
        if r != 'alt' or calls != ['h1']:
            bad.append(('hook-list', 'a hook that empties the hook list: result %r after %r (expected the alternate after only h1)' % (r, calls)))
    finally:
        adapter_hooks[:] = []
    return bad


def generation_attr():
    """the generation counter of a base registry is an attribute access out of the verifying lookups: code run by it
    (a property) re-bases the child / notifies it again while the snapshot is being compared or taken"""
    from zope.interface.adapter import VerifyingAdapterRegistry
    bad = []

    class IR(Interface):
        pass

    class IP(Interface):
        pass

    class Base(VerifyingAdapterRegistry):
        hook = None

        @property
        def _generation(self):
            h = self.__dict__.get('hook')
            if h is not None:
                self.__dict__['hook'] = None
                h()
            return self.__dict__.get('_gen', 0)

        @_generation.setter
        def _generation(self, v):
            self.__dict__['_gen'] = v

    for entry in ('lookup', 'lookupAll', 'subscriptions'):
        bases = [Base() for _ in range(6)]
        child = VerifyingAdapterRegistry(tuple(bases))
        child.register([IR], IP, '', 'x')
        child.subscribe([IR], IP, 's')
        ask = {'lookup': lambda: child.lookup([IR], IP, ''), 'lookupAll': lambda: tuple(child.lookupAll([IR], IP)),
               'subscriptions': lambda: tuple(child.subscriptions([IR], IP))}[entry]
        want = ask()
        junk = []

        def hook():
            child.__bases__ = tuple(bases[:2])        # releases the snapshot the lookup is iterating
            junk.extend(tuple(range(1000 + i, 1006 + i)) for i in range(50))
        bases[0].hook = hook
        try:
            got = ask()
            again = ask()
        except Exception as e:
            bad.append(('generation-attribute', '%s while a base registry\'s _generation attribute re-based the registry: %s: %s' % (entry, type(e).__name__, e)))
            continue
        if got != want or again != want:
            bad.append(('generation-attribute', '%s answered %r then %r, expected %r' % (entry, got, again, want)))
    # references: a re-entrant changed() while the snapshot is taken must not leave the inner snapshot behind
    base = Base()
    child = VerifyingAdapterRegistry((base,))
    before = sys.getrefcount(base)
    for i in range(200):
        base.hook = lambda: child._v_lookup.changed(None)
        child._v_lookup.changed(None)
    after = sys.getrefcount(base)
    if after - before > 5:
        bad.append(('generation-attribute-leak', '200 re-entrant changed() calls while the generation snapshot is taken: the reference count of the base registry went from %d to %d' % (before, after)))
    return bad


def threads(seconds):
    bad = []
    reg = AdapterRegistry()
    reg.register([IR], IP, '', 'v')
    stop = []
    errors = []

    def looker():
        while not stop:
            try:
                if reg.lookup((IR,), IP, '') != 'v':
                    errors.append('wrong answer')
                reg.lookupAll((IR,), IP)
                reg.subscriptions((IR,), IP)
            except Exception as e:
                errors.append(repr(e))

    def mutator():
        n = 0
        while not stop:
            n += 1
            reg.register([IR2], IP, 'n%d' % (n % 7), n)
            reg.subscribe([IR2], IP, n)
            reg.unsubscribe([IR2], IP, n)
    ts = [threading.Thread(target=looker) for _ in range(3)] + [threading.Thread(target=mutator)]
    for t in ts:
        t.start()
    import time
    time.sleep(seconds)
    stop.append(1)
    for t in ts:
        t.join()
    if errors:
        bad.append(('threads', 'lookup threads against one registering thread: %d errors, first %s' % (len(errors), errors[0])))
    return bad


def replay(kind, *args):
    bad = {'one': one, 'refcounts': refcounts, 'hooklist': hooklist, 'threads': threads, 'generation_attr': generation_attr,
           'walk': lambda *a: walk(*a)[0]}[kind](*args)
    for sig, what in bad[:6]:
        print('violated:', sig, what)
    sys.exit(1 if bad else 0)


def run(ctx):
    import itertools
    ctx.rule = ('walk interruption: a mutation (%r) fired from the k-th container access inside the uncached walk of lookup/lookup1/lookupAll/subscriptions, every k; ' % (WALK_MUT,) +
                'product: registry flavour x call-out point %r x mutation %r x entry point %r x name {"", "n"}; plus reference-count '
                'deltas over 200 calls on 9 normal/error exits, the hook that empties the hook list, a base registry whose _generation attribute re-bases / re-notifies the verifying registry while its snapshot is compared or taken, and (thorough) 3 lookup '
                'threads against a registering thread; distinct = points of the product' % (POINT, MUTATION, ENTRY))
    ctx.bounds = 'one mutation per interrupted call'
    for flavour, point, mutation, entry, name in itertools.product('AV', POINT, MUTATION, ENTRY, ('', 'n')):
        if ctx.too_many():
            return
        if not applicable(point, entry):
            continue
        args = (flavour, point, mutation, entry, name)
        ctx.case(args)
        for sig, what in one(*args):
            ctx.violation(sig + ':' + point + ':' + entry, what, 'from falsify.C11 import replay\nreplay("one", *%r)\n' % (args,))
    ctx.sample({'call-out': 'overridden _uncached_lookup', 'mutation': 'register', 'entry': 'lookup'})
    for flavour, entry, mutation, elsewhere in itertools.product('AV', ('lookup', 'lookup1', 'lookupAll', 'subscriptions'), WALK_MUT, WALK_WORLDS):
        if ctx.too_many():
            return
        bad, n = walk(flavour, entry, mutation, elsewhere)
        for k in range(n):
            ctx.case(('walk', flavour, entry, mutation, elsewhere, k))
        for sig, what in bad:
            ctx.violation(sig + ':' + entry, what, 'from falsify.C11 import replay\nreplay("walk", %r, %r, %r, %r)\n' % (flavour, entry, mutation, elsewhere))
    for fl in 'AV':
        ctx.case(('refcounts', fl))
        for sig, what in refcounts(fl):
            ctx.violation(sig + ':' + what[:60], what, 'from falsify.C11 import replay\nreplay("refcounts", %r)\n' % fl)
    ctx.case('hooklist')
    for sig, what in hooklist():
        ctx.violation(sig, what, 'from falsify.C11 import replay\nreplay("hooklist")\n')
    ctx.case('generation_attr')
    for sig, what in generation_attr():
        ctx.violation(sig, what, 'from falsify.C11 import replay\nreplay("generation_attr")\n')
    secs = 1.0 if ctx.tier == 'quick' else 15.0
    ctx.case('threads')
    for sig, what in threads(secs):
        ctx.violation(sig, what, 'from falsify.C11 import replay\nreplay("threads", %r)\n' % secs)
