"""C17 bounded check: verifyObject / verifyClass against an independent oracle.

Oracle per method: every call shape the interface signature admits (each positional arity from required to all
positional, surplus positionals with *args, an arbitrary keyword with **kw) must bind to the implementation
(inspect.Signature.bind).  Oracle per candidate: declares (unless tentative) + every attribute present + every
method compatible; all failures must be reported (single Invalid, else MultipleInvalid listing exactly them).
"""
import inspect
import itertools
import sys

from zope.interface import Attribute, Interface, implementer, classImplements
from zope.interface.exceptions import (BrokenImplementation, BrokenMethodImplementation, DoesNotImplement, Invalid,
                                       MultipleInvalid)
from zope.interface.interface import InterfaceClass, fromFunction
from zope.interface.verify import verifyClass, verifyObject

from falsify import common

SIGS = [(r, o, v, k) for r in range(3) for o in range(3) for v in (0, 1) for k in (0, 1)]


def mkfunc(sig, with_self=False, name='m'):
    r, o, v, k = sig
    params = (['self'] if with_self else []) + ['a%d' % i for i in range(r)] + ['o%d=0' % i for i in range(o)] + \
        (['*args'] if v else []) + (['**kw'] if k else [])
    ns = {}
    exec('def %s(%s): pass' % (name, ', '.join(params)), ns)
    return ns[name]


def admitted_ok(rsig, impl_callable):
    r, o, v, k = rsig
    shapes = [(n, {}) for n in range(r, r + o + 1)]
    if v:
        shapes += [(r + o + j, {}) for j in (1, 2, 5)]
    if k:
        shapes += [(n, {'zzz': 1}) for n, _ in list(shapes)]
    s = inspect.signature(impl_callable)
    for n, kws in shapes:
        try:
            s.bind(*range(n), **kws)
        except TypeError:
            return False
    return True


def check_pair(rsig, isig, how):
    """one interface method, one implementation; how in {'object','class','function-attr'}"""
    iface = InterfaceClass(common.uname('IV'), (Interface,), {'m': mkfunc(rsig)})
    bad = []
    if how == 'class':
        K = type(common.uname('KV'), (object,), {'m': mkfunc(isig, with_self=True)})
        classImplements(K, iface)
        cand, verify, bound = K, verifyClass, K().m
    elif how == 'object':
        K = type(common.uname('KV'), (object,), {'m': mkfunc(isig, with_self=True)})
        classImplements(K, iface)
        cand = K()
        verify, bound = verifyObject, cand.m
    else:
        K = type(common.uname('KV'), (object,), {})
        classImplements(K, iface)
        cand = K()
        cand.m = mkfunc(isig)          # plain function stored on the instance: no self
        verify, bound = verifyObject, cand.m
    exp_ok = admitted_ok(rsig, bound)
    try:
        res = verify(iface, cand)
        got_ok = True
        if res is not True:
            bad.append(('result', 'verification returned %r instead of True' % (res,)))
    except BrokenMethodImplementation:
        got_ok = False
    except Invalid as e:
        got_ok = False
        bad.append(('exception-kind', 'unexpected %r for signature pair %r/%r (%s)' % (e, rsig, isig, how)))
    if got_ok != exp_ok:
        bad.append(('signature', '%s: interface m%s vs implementation %s: verification %s but the admitted call shapes %s' % (
            how, inspect.signature(mkfunc(rsig)), inspect.signature(bound), 'succeeded' if got_ok else 'failed',
            'all bind' if exp_ok else 'do not all bind')))
    return bad


def check_collect(missing, badsig, declare, tentative, how, deep):
    """an interface chain with several names; some attributes missing, some methods incompatible, maybe undeclared"""
    base_attrs = {'x0': Attribute('x0'), 'f0': mkfunc((1, 0, 0, 0), name='f0')}
    I0 = InterfaceClass(common.uname('IC'), (Interface,), base_attrs)
    I1 = InterfaceClass(common.uname('IC'), (I0,), {'x1': Attribute('x1'), 'f1': mkfunc((0, 1, 0, 0), name='f1')})
    I2 = InterfaceClass(common.uname('IC'), (I1,), {'f2': mkfunc((2, 0, 0, 0), name='f2')}) if deep else I1
    iface = I2
    names = ['x0', 'f0', 'x1', 'f1'] + (['f2'] if deep else [])
    good = {'x0': 1, 'x1': 2, 'f0': mkfunc((1, 0, 0, 0), True, 'f0'), 'f1': mkfunc((0, 1, 0, 0), True, 'f1'),
            'f2': mkfunc((2, 0, 0, 0), True, 'f2')}
    wrong = {'f0': mkfunc((2, 0, 0, 0), True, 'f0'), 'f1': mkfunc((0, 0, 0, 0), True, 'f1'),
             'f2': mkfunc((3, 0, 0, 0), True, 'f2')}
    d = {}
    exp = []
    for n in names:
        if n in missing:
            if how == 'class' and n.startswith('x'):
                continue            # plain attributes cannot be required of a class
            exp.append(('missing', n))
            continue
        if n in badsig and n in wrong:
            d[n] = wrong[n]
            exp.append(('signature', n))
        else:
            d[n] = good[n]
    K = type(common.uname('KC'), (object,), d)
    if declare:
        classImplements(K, iface)
    cand = K if how == 'class' else K()
    verify = verifyClass if how == 'class' else verifyObject
    if not declare and not tentative:
        exp.insert(0, ('undeclared', None))
    try:
        verify(iface, cand, tentative=tentative)
        got = []
    except MultipleInvalid as e:
        got = list(e.exceptions)
    except Invalid as e:
        got = [e]

    def kind(e):
        if isinstance(e, DoesNotImplement):
            return ('undeclared', None)
        if isinstance(e, BrokenMethodImplementation):
            return ('signature', e.method if isinstance(e.method, str) else getattr(e.method, '__name__', None))
        if isinstance(e, BrokenImplementation):
            return ('missing', e.name if isinstance(e.name, str) else getattr(e.name, '__name__', None))
        return ('other', repr(e))
    gotk = sorted(map(kind, got), key=repr)
    if gotk != sorted(exp, key=repr):
        return [('collect', '%s(tentative=%s, declared=%s): reported %r, expected exactly %r' % (
            verify.__name__, tentative, declare, gotk, sorted(exp, key=repr)))]
    return []


def check_roles(rsig, isig, order):
    """ONE implementation function met in several binding roles, verified one after another: the verdict of each
    verification is that of the statement for that role, whatever was verified before"""
    from zope.interface import alsoProvides
    iface = InterfaceClass(common.uname('IR'), (Interface,), {'m': mkfunc(rsig)})
    K = type(common.uname('KR'), (object,), {'m': mkfunc(isig, with_self=True)})
    classImplements(K, iface)
    alsoProvides(K, iface)
    inst = K()
    roles = {'class': (verifyClass, K, inst.m), 'classobj': (verifyObject, K, K.m), 'object': (verifyObject, inst, inst.m)}
    bad = []
    done = []
    for role in order:
        verify, cand, bound = roles[role]
        exp_ok = admitted_ok(rsig, bound)
        try:
            verify(iface, cand)
            got_ok = True
        except Invalid:
            got_ok = False
        if got_ok != exp_ok:
            bad.append(('roles', '%s of the %s after %r: interface m%s, attribute as seen there %s: verification %s but the admitted '
                        'call shapes %s' % (verify.__name__, role, done, inspect.signature(mkfunc(rsig)), inspect.signature(bound),
                                            'succeeded' if got_ok else 'failed', 'all bind' if exp_ok else 'do not all bind')))
        done.append(role)
    return bad


def check_families(rsig):
    """implementations that share ONE code object but differ in their defaults (stamped from a template, or __defaults__
    reassigned), verified one after another in both orders: each verdict is that of the statement for that function"""
    import types
    bad = []
    iface = InterfaceClass(common.uname('IF'), (Interface,), {'m': mkfunc(rsig)})

    def template(self, a0=None, a1=None):
        pass
    variants = [None, (1,), (1, 2)]
    for order in ([0, 1, 2], [2, 1, 0], [1, 0, 2, 0]):
        done = []
        for k in order:
            f = types.FunctionType(template.__code__, template.__globals__, 'm', variants[k])
            K = type(common.uname('KF'), (object,), {'m': f})
            classImplements(K, iface)
            for verify, cand, bound, role in ((verifyClass, K, K().m, 'class'), (verifyObject, K(), K().m, 'object')):
                exp_ok = admitted_ok(rsig, bound)
                try:
                    verify(iface, cand)
                    got_ok = True
                except Invalid:
                    got_ok = False
                if got_ok != exp_ok:
                    bad.append(('families', '%s (%s) of an implementation with __defaults__=%r sharing its code object with the ones verified '
                                'before (%r): interface m%s, implementation %s: verification %s but the admitted call shapes %s' % (
                                    verify.__name__, role, variants[k], done, inspect.signature(mkfunc(rsig)), inspect.signature(bound),
                                    'succeeded' if got_ok else 'failed', 'all bind' if exp_ok else 'do not all bind')))
                    return bad
            done.append(variants[k])
    return bad


def replay(kind, *args):
    bad = check_pair(*args) if kind == 'pair' else (check_roles(*args) if kind == 'roles' else (check_families(*args) if kind == 'families' else check_collect(*args)))
    for sig, what in bad:
        print('violated:', sig, what)
    sys.exit(1 if bad else 0)


def run(ctx):
    ctx.rule = ('all pairs of method signatures with <=2 required, <=2 defaulted, optional *args/**kw (24x24) for object, '
                'class and function-attribute verification, oracle inspect.Signature.bind over the admitted call shapes; '
                'implementations sharing one code object with different defaults verified one after another; the same implementation function verified in several binding roles one after another (class, class object providing the interface, instance); '
                'plus all subsets of missing attributes / incompatible methods x declared x tentative x class/object on a '
                '2- and 3-deep interface chain; distinct = distinct (case) tuples')
    ctx.bounds = 'parameters per kind <= 2; 5 names'
    for how in ('object', 'class', 'function-attr'):
        for rsig in SIGS:
            for isig in SIGS:
                if ctx.too_many():
                    return
                ctx.case(('pair', rsig, isig, how))
                for sig, what in check_pair(rsig, isig, how):
                    ctx.violation(sig + ':' + how, what, 'from falsify.C17 import replay\nreplay("pair", %r, %r, %r)\n' % (rsig, isig, how))
    orders = [('class', 'classobj', 'class'), ('classobj', 'class', 'object'), ('object', 'classobj', 'object'), ('class', 'object', 'classobj')]
    for rsig in SIGS:
        for isig in SIGS[::2] if ctx.tier == 'quick' else SIGS:
            for order in orders:
                if ctx.too_many():
                    return
                ctx.case(('roles', rsig, isig, order))
                for sig, what in check_roles(rsig, isig, order):
                    ctx.violation(sig, what, 'from falsify.C17 import replay\nreplay("roles", %r, %r, %r)\n' % (rsig, isig, order))
    for rsig in SIGS:
        if ctx.too_many():
            return
        ctx.case(('families', rsig))
        for sig, what in check_families(rsig):
            ctx.violation(sig, what, 'from falsify.C17 import replay\nreplay("families", %r)\n' % (rsig,))
    ctx.sample({'interface': 'm(a0, o0=0, *args)', 'implementation': 'm(self, a0, **kw)', 'oracle': 'Signature.bind on admitted shapes'})
    names = ['x0', 'f0', 'x1', 'f1', 'f2']
    for deep in (False, True):
        for how in ('object', 'class'):
            for nm in range(3):
                for missing in itertools.combinations(names, nm):
                    for badsig in ((), ('f0',), ('f1', 'f2'), ('f0', 'f1', 'f2')):
                        for declare in (True, False):
                            for tentative in (False, True):
                                if ctx.too_many():
                                    return
                                args = (missing, badsig, declare, tentative, how, deep)
                                ctx.case(('collect',) + args)
                                for sig, what in check_collect(*args):
                                    ctx.violation(sig, what, 'from falsify.C17 import replay\nreplay("collect", *%r)\n' % (args,))
