"""Shared pieces of the bounded registry checks (C04-C09, C16): a list-based reference model of an adapter
registry chain written from the property statements, builders for small worlds, and comparison helpers."""
import itertools

from zope.interface import Interface, implementedBy, providedBy, classImplements
from zope.interface.interface import InterfaceClass
from zope.interface.adapter import AdapterRegistry, VerifyingAdapterRegistry

from falsify import common


class Eq:
    """values that are equal-but-distinct"""

    def __init__(self, v):
        self.v = v

    def __eq__(self, o):
        return isinstance(o, Eq) and o.v == self.v

    def __ne__(self, o):
        return not self.__eq__(o)

    def __hash__(self):
        return hash(self.v)

    def __call__(self, *a):
        return (self, ) + a

    def __repr__(self):
        return 'Eq(%r)#%x' % (self.v, id(self) & 0xfff)


class Falsy(Eq):
    """a registered value that is falsy (an empty container-like component)"""

    def __bool__(self):
        return False

    def __len__(self):
        return 0


def norm_req(req):
    return tuple(Interface if r is None else r for r in req)


class Model:
    """What the statements say a registry holds: live registrations and subscriptions, per registry."""

    def __init__(self):
        self.adapters = {}        # (req, provided, name) -> value        (insertion ordered)
        self.subs = {}            # (req, provided) -> [values]           (subscription order)
        self.provided_order = []  # provided interfaces in order of first becoming live (for ties among incomparable)

    def _touch(self, p):
        if p is not None and not any(p is q for q in self.provided_order):
            self.provided_order.append(p)

    def _gc(self):
        live = [k[1] for k in self.adapters] + [k[1] for k in self.subs]
        self.provided_order = [p for p in self.provided_order if any(p is q for q in live)]

    def register(self, req, p, n, v):
        key = (norm_req(req), p, n)
        if v is None:
            return self.unregister(req, p, n)
        self.adapters[key] = v
        self._touch(p)

    def unregister(self, req, p, n, v=None):
        key = (norm_req(req), p, n)
        if key in self.adapters and (v is None or self.adapters[key] is v):
            del self.adapters[key]
            self._gc()

    def subscribe(self, req, p, v):
        self.subs.setdefault((norm_req(req), p), []).append(v)
        self._touch(p)

    def unsubscribe(self, req, p, v=None):
        key = (norm_req(req), p)
        if key not in self.subs:
            return
        if v is None:
            del self.subs[key]
        else:
            self.subs[key] = [x for x in self.subs[key] if not (x == v)]
            if not self.subs[key]:
                del self.subs[key]
        self._gc()


def pos(x, seq):
    for i, y in enumerate(seq):
        if y is x:
            return i
    return None


def rank(ri, key, req):
    out = [ri]
    for i, k in enumerate(key):
        p = pos(k, req[i].__sro__)
        if p is None:
            return None
        out.append(p)
    return tuple(out)


def generality(q, p):
    """provided q is applicable to the requested p iff q is-or-extends p; more general first"""
    return q.isOrExtends(p)


def best(chain_models, req, p, name):
    """statement of C04: earliest registry, then required positions left to right, then most general provided.
    Returns (value, ambiguous) -- ambiguous when two incomparable provided interfaces tie."""
    cands = []
    for ri, m in enumerate(chain_models):
        for (key, q, n), v in m.adapters.items():
            if n != name or len(key) != len(req) or not generality(q, p):
                continue
            r = rank(ri, key, req)
            if r is None:
                continue
            cands.append((r, q, v))
    if not cands:
        return None, False
    rmin = min(c[0] for c in cands)
    top = [c for c in cands if c[0] == rmin]
    # most general provided: one that every other top candidate's provided extends
    gens = [c for c in top if all(o[1].isOrExtends(c[1]) for o in top)]
    if len(gens) >= 1 and all(g[1] is gens[0][1] for g in gens):
        return gens[0][2], False
    return None, True


def acceptable(chain_models, req, p, name):
    """when best() is ambiguous (incomparable provided interfaces tie): the values the statement still allows -- those
    whose provided interface is not strictly less general than another tied candidate's"""
    cands = []
    for ri, m in enumerate(chain_models):
        for (key, q, n), v in m.adapters.items():
            if n != name or len(key) != len(req) or not generality(q, p):
                continue
            r = rank(ri, key, req)
            if r is not None:
                cands.append((r, q, v))
    if not cands:
        return [None]
    rmin = min(c[0] for c in cands)
    top = [c for c in cands if c[0] == rmin]
    return [c[2] for c in top if not any(o[1] is not c[1] and c[1].isOrExtends(o[1]) for o in top)]


def subscriptions(chain_models, req, p):
    """statement of C07: base registries first, less specific required first, identical keys in subscription
    order.  Returns (list, ambiguous)"""
    groups = []
    amb = False
    for ri, m in enumerate(chain_models):
        for (key, q), vs in m.subs.items():
            if len(key) != len(req):
                continue
            if p is None:
                if q is not None:
                    continue
            elif q is None or not q.isOrExtends(p):
                continue
            r = rank(ri, key, req)
            if r is None:
                continue
            groups.append((r, q, vs, m))
    # decreasing lexicographic rank; among equal ranks: less general provided ... order fixed by extendors (ties)
    out = []
    for r in sorted({g[0] for g in groups}, reverse=True):
        same = [g for g in groups if g[0] == r]
        if len(same) > 1:
            # several provided interfaces under the same required key: most specific (extender) first is not fixed by
            # the statement; the implementation uses reversed extendors order. Comparable ones: more specific first.
            def lt(a, b):
                return a[1] is not b[1] and a[1].isOrExtends(b[1])
            ordered = []
            rest = list(same)
            while rest:
                mins = [g for g in rest if not any(lt(o, g) for o in rest)]
                if len(mins) > 1:
                    amb = True
                    # keep the registry's own first-live order reversed (what reversed(extendors) yields for incomparable)
                    mins.sort(key=lambda g: -pos(g[1], g[3].provided_order))
                ordered.append(mins[0])
                rest.remove(mins[0])
            same = ordered
        for g in same:
            out.extend(g[2])
    return out, amb


def world(ctx_rnd, n_ifaces=4, n_regs=2, flavour=None, max_bases=2):
    """interfaces (random DAG), a class with instances, and a registry chain"""
    shape = common.random_shape(ctx_rnd, n_ifaces, max_bases)
    ifs = common.build_interfaces(shape)
    R = flavour or ctx_rnd.choice([AdapterRegistry, VerifyingAdapterRegistry])
    regs = [R()]
    for k in range(n_regs - 1):
        bases = tuple(ctx_rnd.sample(regs, ctx_rnd.randint(1, min(2, len(regs)))))
        regs.append(R(bases))
    return shape, ifs, R, regs


def cold_copy(regs, R):
    """registries that performed no lookups, rebuilt from the listings of the warm ones (same base structure)"""
    m = {}
    for r in regs:
        c = R(tuple(m[id(b)] for b in r.__bases__))
        m[id(r)] = c
        for a in r.allRegistrations():
            c.register(*a)
        for a in r.allSubscriptions():
            c.subscribe(*a)
    return m


def ids(xs):
    return tuple(id(x) for x in xs)


# ---------------------------------------------------------------------------------------------------------------------
# "the first entry point called after a mutation": every entry point x mutation kind x mutated chain member x flavour,
# each on a fresh chain whose caches were warmed through ALL entry points; compared with a cold chain (C05's statement).
FIRST_ENTRY = ['lookup', 'lookup1', 'lookupAll', 'names', 'queryAdapter', 'adapter_hook', 'queryMultiAdapter',
               'subscriptions', 'subscribers']
FIRST_MUTATION = ['none', 'replace', 'unregister', 'register-specific', 'register-named', 'subscribe', 'unsubscribe',
                  'rebase-drop', 'rebase-swap']


class _Tagged:
    def __init__(self, tag):
        self.tag = tag

    def __call__(self, *a):
        return (self.tag,) + tuple(id(x) for x in a)

    def __repr__(self):
        return 'factory<%s>' % self.tag


def _first_world(flavour, depth):
    R = AdapterRegistry if flavour == 'A' else VerifyingAdapterRegistry
    IReq = InterfaceClass(common.uname('IReq'), (Interface,), {})
    IP = InterfaceClass(common.uname('IP'), (Interface,), {})
    K = type(common.uname('KF'), (object,), {})
    classImplements(K, IReq)
    ob = K()
    chain = [R()]
    for _ in range(depth - 1):
        chain.append(R((chain[-1],)))
    spare = R()
    spare.register((IReq,), IP, '', _Tagged('spare'))
    spare.subscribe((IReq,), IP, _Tagged('spare-sub'))
    root = chain[0]
    root.register((IReq,), IP, '', _Tagged('a0'))
    root.register((IReq,), IP, 'n', _Tagged('n0'))
    root.subscribe((IReq,), IP, _Tagged('s0'))
    root.subscribe((IReq,), IP, _Tagged('s1'))
    return R, IReq, IP, K, ob, chain, spare


def _first_call(r, ep, ob, IP, name):
    """the observation of one entry point: its (normalised) result, or the type of the exception it raised"""
    try:
        return _first_call_raw(r, ep, ob, IP, name)
    except Exception as e:            # an exception is an observation, too (compared with the cold chain)
        return ('raised', type(e).__name__)


def _first_call_raw(r, ep, ob, IP, name):
    spec = providedBy(ob)
    if ep == 'lookup':
        return getattr(r.lookup((spec,), IP, name), 'tag', None)
    if ep == 'lookup1':
        return getattr(r.lookup1(spec, IP, name), 'tag', None)
    if ep == 'lookupAll':
        return tuple(sorted((n, getattr(v, 'tag', repr(v))) for n, v in r.lookupAll((spec,), IP)))
    if ep == 'names':
        return tuple(sorted(r.names((spec,), IP)))
    if ep == 'queryAdapter':
        return (r.queryAdapter(ob, IP, name) or (None,))[0]
    if ep == 'adapter_hook':
        return (r.adapter_hook(IP, ob, name) or (None,))[0]
    if ep == 'queryMultiAdapter':
        return (r.queryMultiAdapter((ob,), IP, name) or (None,))[0]
    if ep == 'subscriptions':
        return tuple(getattr(v, 'tag', repr(v)) for v in r.subscriptions((spec,), IP))
    if ep == 'subscribers':
        return tuple(x[0] for x in r.subscribers((ob,), IP))
    raise ValueError(ep)


def _first_mutate(kind, target, IReq, IP, K, chain, spare, leaf):
    if kind == 'none':
        return
    if kind == 'replace':
        target.register((IReq,), IP, '', _Tagged('a-new'))
    elif kind == 'unregister':
        target.unregister((IReq,), IP, '')
    elif kind == 'register-specific':
        target.register((implementedBy(K),), IP, '', _Tagged('a-specific'))
    elif kind == 'register-named':
        target.register((IReq,), IP, 'n', _Tagged('n-new'))
    elif kind == 'subscribe':
        target.subscribe((IReq,), IP, _Tagged('s-new'))
    elif kind == 'unsubscribe':
        target.unsubscribe((IReq,), IP)
    elif kind == 'rebase-drop':
        leaf.__bases__ = ()
    elif kind == 'rebase-swap':
        leaf.__bases__ = (spare,)


def first_after_mutation_one(flavour, depth, mi, kind, ep, name):
    """[] or [(signature, description)]"""
    R, IReq, IP, K, ob, chain, spare = _first_world(flavour, depth)
    leaf = chain[-1]
    # warm every cache of the leaf through every entry point (lookupAll before subscriptions with the same key on purpose)
    for w in FIRST_ENTRY:
        for nm in ('', 'n'):
            _first_call(leaf, w, ob, IP, nm)
    target = chain[mi]
    if kind in ('replace', 'unregister', 'register-named', 'unsubscribe') and target is not chain[0]:
        # make the mutation effective at this level too: the level gets its own registration first, caches re-warmed
        target.register((IReq,), IP, '', _Tagged('a%d' % mi))
        target.register((IReq,), IP, 'n', _Tagged('n%d' % mi))
        target.subscribe((IReq,), IP, _Tagged('s%d' % mi))
        for w in FIRST_ENTRY:
            for nm in ('', 'n'):
                _first_call(leaf, w, ob, IP, nm)
    _first_mutate(kind, target, IReq, IP, K, chain, spare, leaf)
    got = _first_call(leaf, ep, ob, IP, name)
    cold = cold_copy([spare] + chain, R)[id(leaf)]
    want = _first_call(cold, ep, ob, IP, name)
    if got != want:
        return [('first-after-mutation:%s:%s' % (ep, kind),
                 '%s chain of %d, caches warmed through every entry point, then %r on chain member %d, then %s(name=%r) as the '
                 'FIRST call: answers %r, a chain that performed no earlier lookups answers %r'
                 % ('AdapterRegistry' if flavour == 'A' else 'VerifyingAdapterRegistry', depth, kind, mi, ep, name, got, want))]
    return []


def first_after_mutation(ctx, module):
    """run the whole product; violations are reported through ctx with a replay script of `module`"""
    for flavour, depth in itertools.product('AV', (2, 3)):
        for mi, kind, ep, name in itertools.product(range(depth), FIRST_MUTATION, FIRST_ENTRY, ('', 'n')):
            if ctx.too_many():
                return
            if kind.startswith('rebase') and mi != depth - 1:
                continue
            args = (flavour, depth, mi, kind, ep, name)
            ctx.case(('first-after-mutation',) + args)
            for sig, what in first_after_mutation_one(*args):
                ctx.violation(sig, what, 'from falsify.regcommon import replay_first\nreplay_first(*%r)\n' % (args,))


def replay_first(*args):
    import sys
    bad = first_after_mutation_one(*args)
    for sig, what in bad:
        print('violated:', sig, what)
    sys.exit(1 if bad else 0)
