"""Shared pieces of the bounded registry checks (C04-C09, C16): a list-based reference model of an adapter
registry chain written from the property statements, builders for small worlds, and comparison helpers."""
import itertools

from zope.interface import Interface, implementedBy, providedBy, classImplements
from zope.interface.interface import InterfaceClass
from zope.interface.adapter import AdapterRegistry, VerifyingAdapterRegistry

from falsify import common


class Eq:
    """values that are equal-but-distinct"""

    def __init__(self, v):
        self.v = v

    def __eq__(self, o):
        return isinstance(o, Eq) and o.v == self.v

    def __ne__(self, o):
        return not self.__eq__(o)

    def __hash__(self):
        return hash(self.v)

    def __call__(self, *a):
        return (self, ) + a

    def __repr__(self):
        return 'Eq(%r)#%x' % (self.v, id(self) & 0xfff)


class Falsy(Eq):
    """a registered value that is falsy (an empty container-like component)"""

    def __bool__(self):
        return False

    def __len__(self):
        return 0


def norm_req(req):
    return tuple(Interface if r is None else r for r in req)


class Model:
    """What the statements say a registry holds: live registrations and subscriptions, per registry."""

    def __init__(self):
        self.adapters = {}        # (req, provided, name) -> value        (insertion ordered)
        self.subs = {}            # (req, provided) -> [values]           (subscription order)
        self.provided_order = []  # provided interfaces in order of first becoming live (for ties among incomparable)

    def _touch(self, p):
        if p is not None and not any(p is q for q in self.provided_order):
            self.provided_order.append(p)

    def _gc(self):
        live = [k[1] for k in self.adapters] + [k[1] for k in self.subs]
        self.provided_order = [p for p in self.provided_order if any(p is q for q in live)]

    def register(self, req, p, n, v):
        key = (norm_req(req), p, n)
        if v is None:
            return self.unregister(req, p, n)
        self.adapters[key] = v
        self._touch(p)

    def unregister(self, req, p, n, v=None):
        key = (norm_req(req), p, n)
        if key in self.adapters and (v is None or self.adapters[key] is v):
            del self.adapters[key]
            self._gc()

    def subscribe(self, req, p, v):
        self.subs.setdefault((norm_req(req), p), []).append(v)
        self._touch(p)

    def unsubscribe(self, req, p, v=None):
        key = (norm_req(req), p)
        if key not in self.subs:
            return
        if v is None:
            del self.subs[key]
        else:
            self.subs[key] = [x for x in self.subs[key] if not (x == v)]
            if not self.subs[key]:
                del self.subs[key]
        self._gc()


def pos(x, seq):
    for i, y in enumerate(seq):
        if y is x:
            return i
    return None


def rank(ri, key, req):
    out = [ri]
    for i, k in enumerate(key):
        p = pos(k, req[i].__sro__)
        if p is None:
            return None
        out.append(p)
    return tuple(out)


def generality(q, p):
    """provided q is applicable to the requested p iff q is-or-extends p; more general first"""
    return q.isOrExtends(p)


def best(chain_models, req, p, name):
    """statement of C04: earliest registry, then required positions left to right, then most general provided.
    Returns (value, ambiguous) -- ambiguous when two incomparable provided interfaces tie."""
    cands = []
    for ri, m in enumerate(chain_models):
        for (key, q, n), v in m.adapters.items():
            if n != name or len(key) != len(req) or not generality(q, p):
                continue
            r = rank(ri, key, req)
            if r is None:
                continue
            cands.append((r, q, v))
    if not cands:
        return None, False
    rmin = min(c[0] for c in cands)
    top = [c for c in cands if c[0] == rmin]
    # most general provided: one that every other top candidate's provided extends
    gens = [c for c in top if all(o[1].isOrExtends(c[1]) for o in top)]
    if len(gens) >= 1 and all(g[1] is gens[0][1] for g in gens):
        return gens[0][2], False
    return None, True


def acceptable(chain_models, req, p, name):
    """when best() is ambiguous (incomparable provided interfaces tie): the values the statement still allows -- those
    whose provided interface is not strictly less general than another tied candidate's"""
    cands = []
    for ri, m in enumerate(chain_models):
        for (key, q, n), v in m.adapters.items():
            if n != name or len(key) != len(req) or not generality(q, p):
                continue
            r = rank(ri, key, req)
            if r is not None:
                cands.append((r, q, v))
    if not cands:
        return [None]
    rmin = min(c[0] for c in cands)
    top = [c for c in cands if c[0] == rmin]
    return [c[2] for c in top if not any(o[1] is not c[1] and c[1].isOrExtends(o[1]) for o in top)]


def subscriptions(chain_models, req, p):
    """statement of C07: base registries first, less specific required first, identical keys in subscription
    order.  Returns (list, ambiguous)"""
    groups = []
    amb = False
    for ri, m in enumerate(chain_models):
        for (key, q), vs in m.subs.items():
            if len(key) != len(req):
                continue
            if p is None:
                if q is not None:
                    continue
            elif q is None or not q.isOrExtends(p):
                continue
            r = rank(ri, key, req)
            if r is None:
                continue
            groups.append((r, q, vs, m))
    # decreasing lexicographic rank; among equal ranks: less general provided ... order fixed by extendors (ties)
    out = []
    for r in sorted({g[0] for g in groups}, reverse=True):
        same = [g for g in groups if g[0] == r]
        if len(same) > 1:
            # several provided interfaces under the same required key: most specific (extender) first is not fixed by
            # the statement; the implementation uses reversed extendors order. Comparable ones: more specific first.
            def lt(a, b):
                return a[1] is not b[1] and a[1].isOrExtends(b[1])
            ordered = []
            rest = list(same)
            while rest:
                mins = [g for g in rest if not any(lt(o, g) for o in rest)]
                if len(mins) > 1:
                    amb = True
                    # keep the registry's own first-live order reversed (what reversed(extendors) yields for incomparable)
                    mins.sort(key=lambda g: -pos(g[1], g[3].provided_order))
                ordered.append(mins[0])
                rest.remove(mins[0])
            same = ordered
        for g in same:
            out.extend(g[2])
    return out, amb


def world(ctx_rnd, n_ifaces=4, n_regs=2, flavour=None, max_bases=2):
    """interfaces (random DAG), a class with instances, and a registry chain"""
    shape = common.random_shape(ctx_rnd, n_ifaces, max_bases)
    ifs = common.build_interfaces(shape)
    R = flavour or ctx_rnd.choice([AdapterRegistry, VerifyingAdapterRegistry])
    regs = [R()]
    for k in range(n_regs - 1):
        bases = tuple(ctx_rnd.sample(regs, ctx_rnd.randint(1, min(2, len(regs)))))
        regs.append(R(bases))
    return shape, ifs, R, regs


def cold_copy(regs, R):
    """registries that performed no lookups, rebuilt from the listings of the warm ones (same base structure)"""
    m = {}
    for r in regs:
        c = R(tuple(m[id(b)] for b in r.__bases__))
        m[id(r)] = c
        for a in r.allRegistrations():
            c.register(*a)
        for a in r.allSubscriptions():
            c.subscribe(*a)
    return m


def ids(xs):
    return tuple(id(x) for x in xs)
