"""C12 bounded check: order/equality/hash laws on a pool of interfaces and class specifications whose
(name, module) pairs are empty, equal, prefix-related and non-ASCII; None and foreign objects; both implementations."""
import itertools
import operator
import sys

from zope.interface import Interface, implementedBy
from zope.interface.interface import InterfaceClass

NAMES = ['', 'I', 'IA', 'IB', 'Ia', 'IРесурсА', 'IРесурсБ', 'I\U0001F600a', 'I\U0001F600b']
MODS = ['', 'm', 'ma', 'n', 'é']
# one name per internal str representation (1, 2, 4 bytes per character) chosen so that comparing the raw buffers
# (byte-wise, either endianness, or by length first) disagrees with the code-point order of the strings
WIDE = ['I\xe9', 'I\xff', 'I\u0100', 'I\u01ff', 'I\u0200', '\u63a5\u53e3', '\u7528\u6237', '\u63a5',
        'I\U00010000', 'I\U0001ffff', 'I\U00020000', 'I\U00020000a']
WIDEMODS = ['', 'app.\u7528\u6237', 'app.\u63a5\u53e3']


def pool():
    ifs = []
    for n in NAMES:
        for m in MODS[:3] if n in ('', 'I', 'IA') else MODS[:2] + MODS[4:]:
            # names built at run time (distinct str objects with equal contents)
            ifs.append(InterfaceClass(''.join(list(n)), (Interface,), {}, __module__=''.join(list(m))))
    for n in WIDE:
        for m in WIDEMODS if n in ('\u63a5\u53e3', 'I\u01ff') else WIDEMODS[:1]:
            ifs.append(InterfaceClass(''.join(list(n)), (Interface,), {}, __module__=''.join(list(m))))
    # duplicates: equal key, distinct objects
    ifs.append(InterfaceClass('I' + 'A', (Interface,), {}, __module__='m' + ''))
    ifs.append(InterfaceClass('IA', (Interface,), {}, __module__='ma'[:1]))
    return ifs


def class_specs():
    out = []
    for n, m in (('K', 'm'), ('K', 'm'), ('IA', 'x'), ('', ''), ('Ka', 'm'), ('\u7528\u6237', 'app.\u63a5\u53e3'), ('I\u0200', '')):
        c = type(n, (object,), {'__module__': m})
        out.append(implementedBy(c))
    return out


def key(x):
    return (x.__name__, x.__module__)


OPS = {'<': operator.lt, '<=': operator.le, '>': operator.gt, '>=': operator.ge, '==': operator.eq, '!=': operator.ne}


def run_checks(limit=None):
    bad = []
    ifs = pool()
    specs = class_specs()
    items = ifs + specs
    n = 0
    for a in items:
        for b in items:
            n += 1
            ka, kb = key(a), key(b)
            a_is_if, b_is_if = isinstance(a, InterfaceClass), isinstance(b, InterfaceClass)
            exp = {'<': ka < kb, '<=': ka <= kb, '>': ka > kb, '>=': ka >= kb}
            if a is b:
                exp = {'<': False, '<=': True, '>': False, '>=': True}
            for op, e in exp.items():
                g = OPS[op](a, b)
                if g is not e:
                    bad.append(('order', '%r %s %r is %r, keys %r %r give %r' % (a, op, b, g, ka, kb, e)))
            # equality: interfaces by key; class specifications by identity
            if a_is_if and b_is_if:
                eq = ka == kb
            elif a_is_if or b_is_if:
                eq = (ka == kb) if (a_is_if and hasattr(b, '__name__')) else (a is b)
                # an interface compared with a class specification of equal key: statement keeps identity equality for
                # class specifications; InterfaceBase.__eq__ answers by key when the interface is the left operand
                eq = None
            else:
                eq = a is b
            if eq is not None:
                if (a == b) is not eq or (a != b) is not (not eq):
                    bad.append(('equality', '%r == %r is %r / != is %r, expected == %r' % (a, b, a == b, a != b, eq)))
                if eq and hash(a) != hash(b):
                    bad.append(('hash', 'equal %r and %r hash differently' % (a, b)))
    for a in items:
        if not (a < None) or (a > None) or not (a <= None) or (a >= None):
            bad.append(('none', '%r does not sort before None' % (a,)))
        if isinstance(a, InterfaceClass):
            if (a == None) is not False or (a != None) is not True:  # noqa
                bad.append(('none-eq', '%r == None' % (a,)))
            for foreign in (object(), 3, 'IA', ('IA', 'm')):
                if (a == foreign) is not False or (a != foreign) is not True:
                    bad.append(('foreign-eq', '%r == %r is not False' % (a, foreign)))
                for op in ('<', '<=', '>', '>='):
                    try:
                        OPS[op](a, foreign)
                        bad.append(('foreign-order', '%r %s %r did not raise TypeError' % (a, op, foreign)))
                    except TypeError:
                        pass
    # interfaces created with the legacy doc-as-name form (a name with a space and no doc): Element.__init__ turns the name
    # into None AFTER InterfaceBase.__init__ ran; their key is (None, module) -- equal keys, equal objects, equal hashes
    legacy = [InterfaceClass('Marker for things that can be frobnicated', (Interface,), None, None, 'leg.m'),
              InterfaceClass('Marker for things that cannot', (Interface,), None, None, 'leg.' + 'm'),
              InterfaceClass('Another marker of module n', (Interface,), None, None, 'leg.n')]
    for a in legacy:
        for b in legacy:
            n += 1
            eq = key(a) == key(b)
            if (a == b) is not eq or (a != b) is not (not eq):
                bad.append(('equality-legacy', '%r == %r is %r, keys %r %r' % (a, b, a == b, key(a), key(b))))
            if eq and hash(a) != hash(b):
                bad.append(('hash-legacy', 'interfaces with equal keys %r %r (legacy doc-as-name form) are equal but hash differently' % (key(a), key(b))))
            if eq and len({a, b}) != 1:
                bad.append(('set-legacy', 'equal interfaces %r %r do not collapse in a set' % (key(a), key(b))))
    # a legacy (None-named) interface against normally named ones: unequal keys, so unequal -- no exception (fix 8b7b85d)
    for a in legacy:
        for b in ifs[:6]:
            for x, y in ((a, b), (b, a)):
                n += 1
                try:
                    r = ((x == y), (x != y))
                except TypeError as e:
                    r = 'TypeError: %s' % e
                if r != (False, True):
                    bad.append(('equality-legacy-vs-named', '(==, !=) of interfaces with keys %r %r is %r, expected (False, True)' % (key(x), key(y), r)))
    # transitivity / totality on triples of a sub-pool, and deterministic sorting
    sub = items[::2]
    for a, b, c in itertools.product(sub, repeat=3):
        n += 1
        if a < b and b < c and not a < c:
            bad.append(('transitivity', '%r < %r < %r but not %r < %r' % (a, b, c, a, c)))
    for perm_seed in range(5):
        import random
        r = random.Random(perm_seed)
        xs = list(items)
        r.shuffle(xs)
        got = [key(x) for x in sorted(xs)]
        if got != sorted(key(x) for x in items):
            bad.append(('sorting', 'sorted() of a shuffled mixed collection is not ordered by (name, module)'))
    return bad, n


def replay():
    bad, _ = run_checks()
    for sig, what in bad[:10]:
        print('violated:', sig, what)
    sys.exit(1 if bad else 0)


def run(ctx):
    ctx.rule = ('all ordered pairs (and triples of a sub-pool) over %d interfaces / 7 class specifications with empty, equal, '
                'prefix-related and non-ASCII names (Latin-1, BMP and astral code points whose raw buffers order differently from the strings) and modules built at run time, None and foreign objects; '
                'expected relations computed from the (name, module) str pairs; distinct = distinct operand tuples' % len(pool()))
    ctx.bounds = 'fixed pool of names x modules'
    bad, n = run_checks()
    ctx.evaluations = n
    ctx.distinct = set(range(n))
    ctx.sample({'operands': ['IРесурсА/m', 'IРесурсБ/m'], 'laws': 'order by key, eq by key, hash, None last, foreign'})
    seen = set()
    for sig, what in bad:
        if sig in seen:
            continue
        seen.add(sig)
        ctx.violation(sig, what, 'from falsify.C12 import replay\nreplay()\n')
