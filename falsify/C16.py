"""C16 bounded check: Components histories over the eight register/unregister methods (hashable, unhashable,
equal-but-distinct components; replacing registrations; re-initialisation) against a list-based reference:
listings, every query method, events, return values, rebuildUtilityRegistryFromLocalCache()."""
import sys

from zope.interface import Interface, implementer, providedBy
from zope.interface import registry as zr
from zope.interface.registry import Components

K_ADAPTER_EVENTS = 'C16-registerAdapter-events-on-existing-key'
K_MULTI_UNREG = 'C16-one-event-for-several-removed-subscriptions'


class I(Interface):
    pass


class J(I):
    pass


class U:
    def __init__(s, v):
        s.v = v

    def __eq__(s, o):
        return isinstance(o, U) and o.v == s.v

    def __ne__(s, o):
        return not s.__eq__(o)

    def __hash__(s):
        return hash(s.v)

    def __call__(s, *a):
        CALLS.append(id(s))
        return s

    def __repr__(s):
        return 'U(%r)#%x' % (s.v, id(s) & 0xfff)


class FU(U):            # hashable and falsy
    def __bool__(s):
        return False


CALLS = []


class UL(list):          # unhashable, equality by content
    def __call__(s, *a):
        CALLS.append(id(s))
        return s


@implementer(J)
class _Ob:
    pass


OB = _Ob()

OPS = ['ru', 'ru', 'ru', 'uu', 'uu', 'ra', 'ua', 'rs', 'us', 'rh', 'uh', 'reinit', 'dropcache']


def play(steps):
    ev = []
    saved = zr.notify
    zr.notify = lambda e: ev.append((type(e).__name__, type(e.object).__name__))
    try:
        return _play(steps, ev)
    finally:
        zr.notify = saved


def _play(steps, ev):
    c = Components()
    comps = [U(0), U(0), U(1), UL([1]), UL([1]), UL([2]), UL([]), FU(7)]      # the last two are falsy
    Uref, Aref, Sref, Href = {}, {}, [], []
    bad = []
    knowns = []
    n = 0
    for si, (op, ci, pi, ni, ii, ri, usei) in enumerate(steps):
        comp = comps[ci % len(comps)]
        p = (I, J)[pi % 2]
        nm = ('', 'a')[ni % 2]
        info = ('', 'i')[ii % 2]
        req = ((I,), (J,), (I, J))[ri % 3]
        use = None if usei % 2 == 0 else comp
        del ev[:]
        exp = []
        ret = expret = None
        known = None
        if op == 'reinit':
            c.__init__('again')
            Uref, Aref, Sref, Href = {}, {}, [], []
        elif op == 'dropcache':
            # what copying / unpickling / a ZODB ghost does: the volatile bookkeeping is gone, the registrations stay
            c._v_utility_registrations_cache = None
        elif op == 'ru':
            old = Uref.get((p, nm))
            if not (old is not None and old[0] == comp and old[1] == info):
                if old is not None:
                    exp.append(('Unregistered', 'UtilityRegistration'))
                Uref[(p, nm)] = (comp, info)
                exp.append(('Registered', 'UtilityRegistration'))
            c.registerUtility(comp, p, nm, info)
        elif op == 'uu':
            old = Uref.get((p, nm))
            if old is None or (use is not None and use != old[0]):
                expret = False
            else:
                del Uref[(p, nm)]
                expret = True
                exp.append(('Unregistered', 'UtilityRegistration'))
            ret = c.unregisterUtility(use, p, nm)
        elif op == 'ra':
            old = Aref.get((req, p, nm))
            if old is not None:
                known = K_ADAPTER_EVENTS
            if not (old is not None and old[0] is comp and old[1] == info):
                if old is not None:
                    exp.append(('Unregistered', 'AdapterRegistration'))
                exp.append(('Registered', 'AdapterRegistration'))
            Aref[(req, p, nm)] = (comp, info)
            c.registerAdapter(comp, req, p, nm, info)
        elif op == 'ua':
            old = Aref.get((req, p, nm))
            if old is None or (use is not None and use != old[0]):
                expret = False
            else:
                del Aref[(req, p, nm)]
                expret = True
                exp.append(('Unregistered', 'AdapterRegistration'))
            ret = c.unregisterAdapter(use, req, p, nm)
        elif op == 'rs':
            Sref.append((req, p, comp, info))
            exp.append(('Registered', 'SubscriptionRegistration'))
            c.registerSubscriptionAdapter(comp, req, p, '', info)
        elif op == 'us':
            new = [x for x in Sref if not (x[0] == req and x[1] == p and (use is None or x[2] == use))]
            nrem = len(Sref) - len(new)
            expret = nrem > 0
            exp += [('Unregistered', 'SubscriptionRegistration')] * nrem
            if nrem > 1:
                known = K_MULTI_UNREG
            Sref = new
            ret = c.unregisterSubscriptionAdapter(use, req, p)
        elif op == 'rh':
            Href.append((req, comp, info))
            exp.append(('Registered', 'HandlerRegistration'))
            c.registerHandler(comp, req, '', info)
        elif op == 'uh':
            new = [x for x in Href if not (x[0] == req and (use is None or x[1] == use))]
            nrem = len(Href) - len(new)
            expret = nrem > 0
            exp += [('Unregistered', 'HandlerRegistration')] * nrem
            if nrem > 1:
                known = K_MULTI_UNREG
            Href = new
            ret = c.unregisterHandler(use, req)
        n += 1
        tag = 'step %d (%s)' % (si, op)
        if op[0] == 'u' and ret is not expret:
            bad.append(('return-value', '%s returned %r, expected %r' % (tag, ret, expret), None))
        if ev != exp:
            (knowns if known else bad).append(('events', '%s emitted %r, the statement requires %r' % (tag, ev, exp), known))
        lu = {(r.provided, r.name): (r.component, r.info) for r in c.registeredUtilities()}
        if set(lu) != set(Uref) or any(lu[k][0] is not Uref[k][0] or lu[k][1] != Uref[k][1] for k in lu):
            bad.append(('registeredUtilities', '%s: listing %r, live %r' % (tag, lu, Uref), None))
        la = {(r.required, r.provided, r.name): (r.factory, r.info) for r in c.registeredAdapters()}
        if set(la) != set(Aref) or any(la[k][0] is not Aref[k][0] or la[k][1] != Aref[k][1] for k in la):
            bad.append(('registeredAdapters', '%s: listing differs from the live adapter registrations' % tag, None))
        if [(r.required, r.provided, id(r.factory), r.info) for r in c.registeredSubscriptionAdapters()] != [(a, b, id(f), i) for a, b, f, i in Sref]:
            bad.append(('registeredSubscriptionAdapters', '%s: listing differs from the live subscription adapters' % tag, None))
        if [(r.required, id(r.factory), r.info) for r in c.registeredHandlers()] != [(a, id(f), i) for a, f, i in Href]:
            bad.append(('registeredHandlers', '%s: listing differs from the live handlers' % tag, None))
        # queries answer as registries populated with exactly the listed registrations
        for pp in (I, J):
            for nn in ('', 'a'):
                best = None
                if (pp, nn) in Uref:
                    best = Uref[(pp, nn)][0]
                elif pp is I and (J, nn) in Uref:
                    best = Uref[(J, nn)][0]
                if c.queryUtility(pp, nn) is not best:
                    bad.append(('queryUtility', '%s: queryUtility(%s, %r) is %r, live registrations give %r' % (tag, pp.__name__, nn, c.queryUtility(pp, nn), best), None))
            allu = list(c.getAllUtilitiesRegisteredFor(pp))
            expu = []
            for p3 in (I, J):
                if not p3.isOrExtends(pp):
                    continue
                seen = []
                for (p2, n2), (cc, _) in Uref.items():
                    if p2 is p3 and not any(cc == x for x in seen):
                        seen.append(cc)
                expu += seen
            if len(allu) != len(expu) or any(not any(a == e for e in expu) for a in allu):
                bad.append(('getAllUtilitiesRegisteredFor', '%s: %r, expected one per distinct live component %r' % (tag, allu, expu), None))
            names = sorted(nn for (p2, nn) in Uref if p2.isOrExtends(pp))
            if sorted({k for k, _ in c.getUtilitiesFor(pp)}) != sorted(set(names)):
                bad.append(('getUtilitiesFor', '%s: names %r, expected %r' % (tag, sorted(k for k, _ in c.getUtilitiesFor(pp)), sorted(set(names))), None))
        for (rq, pp, nn), (f, _) in Aref.items():
            if c.adapters.registered(rq, pp, nn) is not f:
                bad.append(('adapter-registry', '%s: underlying registry does not hold the listed adapter' % tag, None))
        subs_live = sorted(id(f) for a, b, f, i in Sref)
        got_subs = sorted(id(f) for a, b, f in c.adapters.allSubscriptions() if b is not None)
        # equal factories under the same key are removed together; otherwise one subscription per listed registration
        if got_subs != subs_live:
            bad.append(('subscription-registry', '%s: underlying subscriptions differ from the listed subscription adapters' % tag, None))
        if sorted(id(f) for a, b, f in c.adapters.allSubscriptions() if b is None) != sorted(id(f) for a, f, i in Href):
            bad.append(('handler-registry', '%s: underlying handler subscriptions differ from the listed handlers' % tag, None))

        # handle()/subscribers() reach exactly the listed handlers / subscription adapters (asked every step, so the
        # lookup caches are always warm when the next mutation happens)
        ob = OB
        del CALLS[:]
        c.handle(ob)
        exp_calls = sorted(id(f) for a, f, i in Href if len(a) == 1)
        if sorted(CALLS) != exp_calls:
            bad.append(('handle', '%s: handle(ob) called %d handlers, the listing has %d applicable ones' % (tag, len(CALLS), len(exp_calls)), None))
        for pp in (I, J):
            del CALLS[:]
            c.subscribers((ob,), pp)
            exp_calls = sorted(id(f) for a, b, f, i in Sref if len(a) == 1 and b.isOrExtends(pp))
            if sorted(CALLS) != exp_calls:
                bad.append(('subscribers', '%s: subscribers((ob,), %s) called %d factories, the listing has %d applicable ones' % (tag, pp.__name__, len(CALLS), len(exp_calls)), None))
        d = c.rebuildUtilityRegistryFromLocalCache()
        if d['needed_registered'] or d['needed_subscribed']:
            bad.append(('rebuild-probe', '%s: rebuildUtilityRegistryFromLocalCache() found %r to repair' % (tag, d), None))
        if bad:
            return bad + knowns, n
    return knowns, n


def random_steps(rnd):
    # few keys so that replacements and removals meet earlier registrations
    return tuple((rnd.choice(OPS), rnd.randrange(8), rnd.randrange(2), rnd.randrange(2), rnd.randrange(2), rnd.randrange(3), rnd.randrange(2))
                 for _ in range(rnd.randint(1, 8)))


def replay(steps):
    bad, _ = play(steps)
    for sig, what, known in bad[:6]:
        print('violated:', sig, what, '(recorded finding %s)' % known if known else '')
    sys.exit(1 if bad else 0)


def run(ctx):
    ctx.rule = ('random histories of <=8 calls over the eight register/unregister methods plus re-initialisation and loss of the volatile utility bookkeeping (_v_ attribute, as after copy/unpickle), components '
                'drawn from {hashable equal pair, hashable other, unhashable equal pair, unhashable other, falsy unhashable, falsy hashable}, 2 related provided '
                'interfaces, 2 names, 3 required tuples; after every call: events, return value, the four listings, utility '
                'queries, underlying registries, rebuild probe against a list-based reference; distinct = histories')
    ctx.bounds = 'random history<=8; exhaustive sequences<=3/4 after one component registered under two names'
    # exhaustive: one component registered under two names of one interface, then every sequence of <=3 (quick) / 4
    # (thorough) calls over {register again, unregister either name, replace by another component, lose the volatile
    # bookkeeping}: the per-interface subscription count must follow the number of names, also when it is re-derived
    import itertools
    for ci in (0, 3):           # a hashable and an unhashable component
        alphabet = [('ru', ci, 0, 0, 0, 0, 0), ('ru', ci, 0, 1, 0, 0, 0), ('uu', ci, 0, 0, 0, 0, 0), ('uu', ci, 0, 1, 0, 0, 0),
                    ('ru', 2, 0, 0, 0, 0, 0), ('dropcache', 0, 0, 0, 0, 0, 0)]
        for ln in range(1, (3 if ctx.tier == 'quick' else 4) + 1):
            for seq in itertools.product(alphabet, repeat=ln):
                if ctx.out_of_time() or ctx.too_many():
                    return
                steps = (alphabet[0], alphabet[1]) + seq
                bad, n = play(steps)
                ctx.evaluations += n
                ctx.distinct.add(steps)
                for sig, what, known in bad[:3]:
                    ctx.violation(known or sig, what, 'from falsify.C16 import replay\nreplay(%r)\n' % (steps,), known)
    trials = 1500 if ctx.tier == 'quick' else 20000
    for t in range(trials):
        if ctx.out_of_time() or ctx.too_many():
            return
        steps = random_steps(ctx.rnd)
        bad, n = play(steps)
        ctx.evaluations += n
        ctx.distinct.add(steps)
        if t == 3:
            ctx.sample({'history': [s[0] for s in steps]})
        for sig, what, known in bad[:3]:
            ctx.violation(known or sig, what, 'from falsify.C16 import replay\nreplay(%r)\n' % (steps,), known)
