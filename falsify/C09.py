"""C09 bounded check: register/unregister/subscribe/unsubscribe/rebuild histories against a dictionary that
replays the history; listings, registered(), subscribed(); replay of the listings into an empty registry and
rebuild() must answer every unambiguous lookup identically."""
import itertools
import sys

from zope.interface import Interface
from zope.interface.adapter import AdapterRegistry, VerifyingAdapterRegistry

from falsify import common, regcommon
from falsify.regcommon import Eq, Model

OPS = ['register', 'register', 'unregister', 'subscribe', 'unsubscribe', 'rebuild', 'register_none']


def play(spec):
    shape, flav, ops = spec
    ifs = common.build_interfaces(shape)
    R = AdapterRegistry if flav == 'A' else VerifyingAdapterRegistry
    r = R()
    child = R((r,))          # a deriving registry must keep following r (also across rebuild)
    m = Model()
    vals = [Eq(0), Eq(0), Eq(1), object(), regcommon.Falsy(5)]
    pool = ifs + [None]
    bad = []
    nq = 0
    keys = sorted({(o[1], o[2], o[3]) for o in ops if o[0] != 'rebuild'})

    def rep_invariant(tag):
        """the representation invariant the deductive contracts of the mutators take as precondition (DESIGN 10.2, C09): per-order
        trees of dicts, no dict object reachable by two paths, no empty mapping left behind, tuple leaves, no trailing empty
        per-order mapping, reference counts at least the number of entries per provided"""
        counts = {}
        for label, byorder, subs in (('_adapters', r._adapters, False), ('_subscribers', r._subscribers, True)):
            seen = set()
            if byorder and not byorder[-1]:
                bad.append(('rep-trailing-empty', '%s: %s ends with an empty per-order mapping' % (tag, label)))

            def walk(node, depth, order):
                if not isinstance(node, dict):
                    bad.append(('rep-node-type', '%s: %s holds a %s where a mapping is expected (depth %d of order %d)' % (tag, label, type(node).__name__, depth, order)))
                    return
                if id(node) in seen:
                    bad.append(('rep-shared-node', '%s: a mapping of %s is reachable by two paths' % (tag, label)))
                    return
                seen.add(id(node))
                if not node and depth > 0:
                    bad.append(('rep-empty-mapping', '%s: an empty mapping was left behind in %s (depth %d of order %d)' % (tag, label, depth, order)))
                for k, v in node.items():
                    if depth <= order:
                        walk(v, depth + 1, order)
                    else:
                        # leaf level {name: value}
                        prov = None
                        if subs and (not isinstance(v, tuple) or not v):
                            bad.append(('rep-leaf', '%s: a subscription leaf is %r' % (tag, v)))
            for order, root in enumerate(byorder):
                walk(root, 0, order)
        n_by_provided = {}
        for req, p, n, v in r.allRegistrations():
            n_by_provided[p] = n_by_provided.get(p, 0) + 1
        for req, p, v in r.allSubscriptions():
            if p is not None:
                n_by_provided[p] = n_by_provided.get(p, 0) + 1
        for p, n in n_by_provided.items():
            if r._provided.get(p, 0) < n:
                bad.append(('rep-count', '%s: the reference count of %s is %r with %d live entries' % (tag, p.__name__, r._provided.get(p), n)))

    def observe(tag):
        nonlocal nq
        rep_invariant(tag)
        # listings
        got = {(req, p, n): v for req, p, n, v in r.allRegistrations()}
        if len(got) != len(list(r.allRegistrations())):
            bad.append(('allRegistrations-dup', tag + ': a key listed twice'))
        if set(got) != set(m.adapters) or any(got[k] is not m.adapters[k] for k in got if k in m.adapters):
            bad.append(('allRegistrations', '%s: allRegistrations() lists %d entries, the history leaves %d live (or values differ)' % (tag, len(got), len(m.adapters))))
        gs = {}
        for req, p, v in r.allSubscriptions():
            gs.setdefault((req, p), []).append(v)
        if set(gs) != set(m.subs) or any(regcommon.ids(gs[k]) != regcommon.ids(m.subs[k]) for k in gs if k in m.subs):
            bad.append(('allSubscriptions', '%s: allSubscriptions() differs from the live subscriptions of the history' % tag))
        for (req_idx, p_idx, n) in keys:
            req = tuple(pool[i] for i in req_idx)
            p = pool[p_idx]
            nq += 1
            if p is not None:
                exp = m.adapters.get((regcommon.norm_req(req), p, n))
                if r.registered(req, p, n) is not exp:
                    bad.append(('registered', '%s: registered(%s, %s, %r) is %r, history says %r' % (tag, common.names(regcommon.norm_req(req)), p.__name__, n, r.registered(req, p, n), exp)))
            live = m.subs.get((regcommon.norm_req(req), p), [])
            for vv in vals:
                e = any(x == vv for x in live)
                if (r.subscribed(req, p, vv) is not None) != e:
                    bad.append(('subscribed', '%s: subscribed() wrong for %r' % (tag, vv)))
        # lookups through the registry itself and through the deriving one, against the model
        arities = sorted({len(k[0]) for k in keys} | {0})
        for reg_, chain in ((r, [m]), (child, [Model(), m])):
            for ar in arities:
                for req in itertools.product(ifs, repeat=ar):
                    for p in ifs:
                        for n in ('', 'a'):
                            nq += 1
                            exp, amb = regcommon.best(chain, req, p, n)
                            if not amb and reg_.lookup(req, p, n) is not exp:
                                bad.append(('lookup-after-history', '%s: lookup(%s, %s, %r) via %s is not the live registration of the history' % (
                                    tag, common.names(req), p.__name__, n, 'the registry' if reg_ is r else 'a deriving registry')))
                        exp, amb = regcommon.subscriptions(chain, req, p)
                        gots = reg_.subscriptions(req, p)
                        if (sorted(map(id, gots)) != sorted(map(id, exp))) or (not amb and regcommon.ids(gots) != regcommon.ids(exp)):
                            bad.append(('subscriptions-after-history', '%s: subscriptions(%s, %s) differs from the live subscriptions' % (tag, common.names(req), p.__name__)))
                    if bad:
                        return

    for step, op in enumerate(ops):
        kind = op[0]
        if kind == 'rebuild':
            r.rebuild()
        else:
            _, req_idx, p_idx, n, vi = op
            req = tuple(pool[i] for i in req_idx)
            p = pool[p_idx]
            v = None if vi is None else vals[vi]
            if kind in ('register', 'register_none') and p is not None:
                if kind == 'register_none':
                    v = None
                r.register(req, p, n, v)
                m.register(req, p, n, v)
            elif kind == 'unregister' and p is not None:
                r.unregister(req, p, n, v)
                m.unregister(req, p, n, v)
            elif kind == 'subscribe' and v is not None:
                r.subscribe(req, p, v)
                m.subscribe(req, p, v)
            elif kind == 'unsubscribe':
                r.unsubscribe(req, p, v)
                m.unsubscribe(req, p, v)
            else:
                continue
        observe('after step %d (%s)' % (step, kind))
        if bad:
            return bad, nq
    # replay-equivalence: a fresh registry fed with the listings
    fresh = R()
    for a in r.allRegistrations():
        fresh.register(*a)
    for a in r.allSubscriptions():
        fresh.subscribe(*a)
    arities = sorted({len(k[0]) for k in keys} | {0})
    for ar in arities:
        for req in itertools.product(ifs, repeat=ar):
            for p in ifs:
                for n in ('', 'a'):
                    _, amb = regcommon.best([m], req, p, n)
                    if not amb and fresh.lookup(req, p, n) is not r.lookup(req, p, n):
                        bad.append(('replay', 'a registry rebuilt from the listings answers lookup(%s, %s, %r) differently' % (common.names(req), p.__name__, n)))
                if sorted(map(id, fresh.subscriptions(req, p))) != sorted(map(id, r.subscriptions(req, p))):
                    bad.append(('replay-subs', 'a registry rebuilt from the listings answers subscriptions differently'))
    return bad, nq


def random_spec(rnd):
    n = rnd.randint(2, 4)
    shape = common.random_shape(rnd, n, 2)
    keys = [(tuple(rnd.randrange(n + 1) for _ in range(rnd.choice([0, 1, 1, 2]))), rnd.randrange(n + 1), rnd.choice(['', 'a'])) for _ in range(2)]
    keys.append((tuple(rnd.randrange(n + 1) for _ in range(rnd.randint(0, 2))), rnd.randrange(n), ''))
    ops = []
    for _ in range(rnd.randint(2, 7)):
        kind = rnd.choice(OPS)
        if kind == 'rebuild':
            ops.append(('rebuild',))
        else:
            k = rnd.choice(keys)
            ops.append((kind, k[0], k[1], k[2], rnd.choice([None, 0, 1, 2, 3, 4])))
    return (shape, rnd.choice('AV'), tuple(ops))


def structured_spec(rnd):
    """fill / rebuild / drain: several values under one subscription key and registrations sharing its provided
    interface, rebuild() somewhere, then everything removed one by one (the bookkeeping must survive every order)"""
    n = rnd.randint(2, 3)
    shape = common.random_shape(rnd, n, 2)
    p = rnd.randrange(n)
    req = tuple(rnd.randrange(n + 1) for _ in range(rnd.choice([0, 1, 1, 2])))
    req2 = tuple(rnd.randrange(n + 1) for _ in range(rnd.choice([0, 1, 2])))
    fill = [('subscribe', req, p, '', v) for v in rnd.sample([0, 2, 3], rnd.randint(2, 3))]
    fill += [('register', rq, p, nm, 3) for rq, nm in rnd.sample([(req, ''), (req2, 'a'), (req, 'a')], rnd.randint(0, 2))]
    rnd.shuffle(fill)
    drain = [('unsubscribe' if o[0] == 'subscribe' else 'unregister',) + o[1:] for o in fill]
    rnd.shuffle(drain)
    ops = list(fill)
    ops.insert(rnd.randint(1, len(ops)), ('rebuild',))
    ops += drain[:rnd.randint(1, len(drain))]
    return (shape, rnd.choice('AV'), tuple(ops))


def replay(spec):
    bad, _ = play(spec)
    for sig, what in bad[:8]:
        print('violated:', sig, what)
    sys.exit(1 if bad else 0)


def run(ctx):
    ctx.rule = ('after every step the representation invariant the deductive contracts assume (trees of dicts without shared or empty mappings, tuple leaves, counts); ' +'random histories of <=7 (and structured fill/rebuild/drain histories of <=11) register/unregister/subscribe/unsubscribe/rebuild/register(None) calls over 3 keys '
                '(arity 0..2, None required, handlers), equal-but-distinct values, either flavour, with a deriving registry; after '
                'every step listings, registered(), subscribed(), all lookups and subscriptions compared with the dictionary '
                'replay of the history; finally replay of the listings into a fresh registry; distinct = histories')
    ctx.bounds = 'history<=7, interfaces<=4'
    trials = 900 if ctx.tier == 'quick' else 8000
    for t in range(trials):
        if ctx.out_of_time() or ctx.too_many():
            return
        spec = random_spec(ctx.rnd) if t % 3 else structured_spec(ctx.rnd)
        bad, n = play(spec)
        ctx.evaluations += n
        ctx.distinct.add(spec)
        if t == 4:
            ctx.sample({'history': repr(spec[2])[:300], 'queries': n})
        for sig, what in bad[:2]:
            ctx.violation(sig + ':' + repr(spec), what, 'from falsify.C09 import replay\nreplay(%r)\n' % (spec,))
