"""C05 bounded check: interleavings of every lookup entry point with every kind of mutation named by the
statement, compared after each step with cold registries rebuilt from the listings (no earlier lookups)."""
import sys

from zope.interface import (Interface, implementedBy, classImplements, classImplementsOnly, directlyProvides,
                            alsoProvides, noLongerProvides, providedBy)
from zope.interface.adapter import AdapterRegistry, VerifyingAdapterRegistry

from falsify import common, regcommon
from falsify.regcommon import Eq

MUT = ['reg', 'reg', 'unreg', 'sub', 'sub', 'unsub', 'unsub', 'rebase_spec', 'rebase_leaf_registry', 'class_decl', 'class_only',
       'direct', 'also', 'nolonger', 'rebuild', 'warm', 'warm', 'warm_one']


def play(spec):
    shape, flav, nreg_bases, steps = spec
    ifs = common.build_interfaces(shape + ((0,),))       # the last interface is only ever used as required (re-based)
    movable = ifs[-1]
    provs = ifs[:-1]
    R = AdapterRegistry if flav == 'A' else VerifyingAdapterRegistry
    K = type(common.uname('K'), (object,), {})
    classImplements(K, ifs[0])
    objs = [K(), K()]
    regs = []
    for bs in nreg_bases:
        regs.append(R(tuple(regs[b] for b in bs)))
    vals = [Eq(0), Eq(0), Eq(1), Eq(2)]
    pool = ifs + [None, implementedBy(K)]

    def queries():
        qs = []
        for r in regs:
            for req in [()] + [(i,) for i in ifs] + [(providedBy(o),) for o in objs] + [(ifs[0], movable), (movable, providedBy(objs[0]))]:
                for p in provs[:3]:
                    qs.append((r, req, p))
        return qs

    def observe(rmap=None, only=None):
        res = []
        for r, req, p in queries():
            rr = rmap[id(r)] if rmap else r
            for n in ('', 'a'):
                res.append(('lookup', regs.index(r), common.names(req), p.__name__, n, id(rr.lookup(req, p, n))))
            res.append(('lookupAll', regs.index(r), common.names(req), p.__name__, tuple(sorted((n, id(v)) for n, v in rr.lookupAll(req, p)))))
            res.append(('subscriptions', regs.index(r), common.names(req), p.__name__, tuple(id(v) for v in rr.subscriptions(req, p))))
            res.append(('handlers', regs.index(r), common.names(req), tuple(id(v) for v in rr.subscriptions(req, None))))
            if len(req) == 1:
                res.append(('lookup1', regs.index(r), common.names(req), p.__name__, id(rr.lookup1(req[0], p, ''))))
        for r in regs:
            rr = rmap[id(r)] if rmap else r
            for oi, o in enumerate(objs):
                for p in provs[:3]:
                    res.append(('queryAdapter', regs.index(r), oi, p.__name__, repr(rr.queryAdapter(o, p))))
                    res.append(('subscribers', regs.index(r), oi, p.__name__, repr(rr.subscribers((o,), p))))
        return res

    n = 0
    for si, st in enumerate(steps):
        op = st[0]
        r = regs[st[1] % len(regs)]
        req = tuple(pool[i % len(pool)] for i in st[2])
        p = provs[st[3] % len(provs)]
        name = ('', 'a')[st[4] % 2]
        v = vals[st[5] % 4]
        o = objs[st[5] % 2]
        try:
            if op == 'reg':
                r.register(req, p, name, v)
            elif op == 'unreg':
                r.unregister(req, p, name, None if st[5] % 3 == 0 else v)
            elif op == 'sub':
                r.subscribe(req, None if st[4] % 3 == 0 else p, v)
            elif op == 'unsub':
                r.unsubscribe(req, None if st[4] % 3 == 0 else p, None if st[5] % 3 == 0 else v)
            elif op == 'rebase_spec':
                nb = tuple(provs[i % len(provs)] for i in st[2][:2]) or (Interface,)
                if len(set(map(id, nb))) == len(nb):
                    try:
                        movable.__bases__ = nb
                    except TypeError:
                        pass
            elif op == 'rebase_leaf_registry':
                leaf = regs[-1]
                cand = regs[:-1]
                leaf.__bases__ = tuple(cand[i % len(cand)] for i in sorted(set(st[2][:2]))) if cand else ()
            elif op == 'class_decl':
                classImplements(K, pool[st[3] % len(ifs)])
            elif op == 'class_only':
                classImplementsOnly(K, pool[st[3] % len(ifs)])
            elif op == 'direct':
                directlyProvides(o, *[ifs[i % len(ifs)] for i in st[2][:2]])
            elif op == 'also':
                alsoProvides(o, ifs[st[3] % len(ifs)])
            elif op == 'nolonger':
                try:
                    noLongerProvides(o, ifs[st[3] % len(ifs)])
                except ValueError:
                    pass
            elif op == 'rebuild':
                r.rebuild()
            elif op == 'warm_one':
                r.lookup((providedBy(o),), p, name)
                r.adapter_hook(p, o, name)
                continue
            elif op == 'warm':
                observe()
                continue
        except TypeError:
            continue      # inconsistent declaration rejected by the library: not a mutation
        a = observe()
        b = observe(regcommon.cold_copy(regs, R))
        n += len(a)
        if a != b:
            diffs = [(x, y) for x, y in zip(a, b) if x != y]
            kinds = sorted({x[0] for x, _ in diffs})
            return [('stale:' + '+'.join(kinds) + ':' + op,
                     'after step %d (%s) the registry that performed earlier lookups answers %s differently from a cold '
                     'registry with the same registrations: %r vs %r' % (si, op, kinds, diffs[0][0][:5], diffs[0][1][:5]))], n
    return [], n


def random_spec(rnd):
    n = rnd.randint(3, 4)
    shape = common.random_shape(rnd, n, 2)
    nreg = rnd.randint(1, 3)
    reg_bases = [()]
    for k in range(1, nreg):
        reg_bases.append(tuple(rnd.sample(range(k), rnd.randint(1, min(2, k)))))
    steps = []
    keys = [(tuple(rnd.randrange(8) for _ in range(rnd.choice([0, 1, 1, 2]))), rnd.randrange(6), rnd.randrange(6)) for _ in range(3)]
    keys[0] = (keys[0][0], keys[0][1], 3 * rnd.randrange(2))      # one key is a handler key (provided None)
    for _ in range(rnd.randint(3, 9)):
        k = rnd.choice(keys)
        steps.append((rnd.choice(MUT), rnd.randrange(3), k[0], k[1], k[2], rnd.randrange(12)))
    return (shape, rnd.choice('AV'), tuple(reg_bases), tuple(steps))


def replay(spec):
    bad, _ = play(spec)
    for sig, what in bad:
        print('violated:', sig, what)
    sys.exit(1 if bad else 0)


def run(ctx):
    ctx.rule = ('mutations completing while a lookup is in flight (call-out points x mutation kinds x entry points, next lookup compared with a cold registry); random histories of <=9 steps mixing warm-up lookups (all entry points) with register/unregister/subscribe/'
                'unsubscribe on any chain member, re-basing of a required interface, re-basing of the leaf registry, class and '
                'instance declaration changes, rebuild; after every mutation every entry point on every registry (arity 0..2, '
                'class and instance specifications) is compared with cold registries rebuilt from the listings; distinct = histories')
    ctx.bounds = 'history<=9, registries<=3, interfaces<=5'
    # mutations that complete WHILE a lookup is in flight (the statement quantifies over any history): the answer that
    # was being computed must not be what later lookups see -- the re-entrancy product of the C11 check, stale-cache oracle
    import itertools
    from falsify import C11
    for flavour, point, mutation, entry, name in itertools.product('AV', C11.POINT, C11.MUTATION, C11.ENTRY, ('', 'n')):
        if ctx.too_many():
            return
        if not C11.applicable(point, entry) or mutation == 'raise':
            continue
        args = (flavour, point, mutation, entry, name)
        ctx.case(('in-flight',) + args)
        for sig, what in C11.one(*args):
            if sig.startswith('stale-cache'):
                ctx.violation('in-flight-' + sig + ':' + point + ':' + entry, what, 'from falsify.C11 import replay\nreplay("one", *%r)\n' % (args,))
    regcommon.first_after_mutation(ctx, 'C05')
    trials = 1200 if ctx.tier == 'quick' else 8000
    for t in range(trials):
        if ctx.out_of_time() or ctx.too_many():
            return
        spec = random_spec(ctx.rnd)
        bad, n = play(spec)
        ctx.evaluations += n
        ctx.distinct.add(spec)
        if t == 3:
            ctx.sample({'history': [s[0] for s in spec[3]], 'observations': n})
        for sig, what in bad:
            ctx.violation(sig, what, 'from falsify.C05 import replay\nreplay(%r)\n' % (spec,))
