"""C06 bounded check: registry DAGs of either flavour, histories of __bases__ reassignment at any level and of
registrations in any member; every registry must answer like a registry chain freshly built with the current bases."""
import sys

from zope.interface import Interface, ro
from zope.interface.adapter import AdapterRegistry, VerifyingAdapterRegistry

from falsify import common, regcommon

KNOWN = 'C06-stale-ro-of-descendants'


def play(spec):
    shape, flav, reg_bases, steps = spec
    ifs = common.build_interfaces(shape)
    R = AdapterRegistry if flav == 'A' else VerifyingAdapterRegistry
    regs = []
    for bs in reg_bases:
        regs.append(R(tuple(regs[b] for b in bs)))
    rebased = set()
    n = 0
    found_known = []

    def observe(rmap=None):
        out = []
        for r in regs:
            rr = rmap[id(r)] if rmap else r
            for req in [()] + [(i,) for i in ifs]:
                for p in ifs:
                    out.append((regs.index(r), 'lookup', id(rr.lookup(req, p, ''))))
                    out.append((regs.index(r), 'lookupAll', tuple(sorted((k, id(v)) for k, v in rr.lookupAll(req, p)))))
                    out.append((regs.index(r), 'subscriptions', tuple(id(v) for v in rr.subscriptions(req, p))))
        return out

    def ancestors(r):
        seen = []
        stack = list(r.__bases__)
        while stack:
            x = stack.pop()
            if not any(x is y for y in seen):
                seen.append(x)
                stack.extend(x.__bases__)
        return seen

    for si, st in enumerate(steps):
        op = st[0]
        if op == 'warm':
            observe()
            continue
        r = regs[st[1] % len(regs)]
        if op == 'rebase-same':
            r.__bases__ = tuple(r.__bases__)
            rebased.add(regs.index(r))
            op = 'rebase'
        elif op == 'rebase':
            idx = regs.index(r)
            cand = regs[:idx]
            new = tuple(cand[i % len(cand)] for i in dict.fromkeys(st[2])) if cand else ()
            r.__bases__ = new
            rebased.add(idx)
        elif op == 'reg':
            r.register(tuple(ifs[i % len(ifs)] for i in st[2][:1]), ifs[st[3] % len(ifs)], '', object())
        elif op == 'unreg':
            r.unregister(tuple(ifs[i % len(ifs)] for i in st[2][:1]), ifs[st[3] % len(ifs)], '')
        elif op == 'sub':
            r.subscribe(tuple(ifs[i % len(ifs)] for i in st[2][:1]), ifs[st[3] % len(ifs)], object())
        a = observe()
        b = observe(regcommon.cold_copy(regs, R))
        n += len(a)
        if a != b:
            wrong = sorted({x[0] for x, y in zip(a, b) if x != y})
            kinds = sorted({x[1] for x, y in zip(a, b) if x != y})
            # region of the recorded defect: the deviating registry's stored resolution order is stale because a
            # registry ABOVE it was re-based (its own __bases__ assignment recomputes its own order correctly)
            known = all(
                [id(x) for x in regs[w].ro] != [id(x) for x in ro.ro(regs[w])]
                and any(regs.index(anc) in rebased for anc in ancestors(regs[w]) if any(anc is q for q in regs))
                and not (op == 'rebase' and regs.index(r) == w)
                for w in wrong)
            item = ('chain:' + '+'.join(kinds) + ':' + op,
                    'after step %d (%s on registry %d) registries %r answer %s differently from registries freshly built with '
                    'the current __bases__ (%s flavour)' % (si, op, regs.index(r), wrong, kinds, R.__name__),
                    KNOWN if known else None)
            if not known:
                return [item], n
            # the recorded defect: keep playing -- what happens AFTER it (the stale registry's own __bases__ is assigned,
            # registrations change above it) is still under the unrestricted check
            found_known = found_known or [item]
    return found_known, n


def random_spec(rnd):
    n = rnd.randint(2, 3)
    shape = common.random_shape(rnd, n, 1)
    nreg = rnd.randint(2, 4)
    reg_bases = [()]
    for k in range(1, nreg):
        reg_bases.append(tuple(rnd.sample(range(k), rnd.randint(0, min(2, k)))))
    steps = []
    for _ in range(rnd.randint(2, 7)):
        steps.append((rnd.choice(['rebase', 'rebase', 'reg', 'reg', 'unreg', 'sub', 'warm']), rnd.randrange(4),
                      tuple(rnd.randrange(4) for _ in range(rnd.randint(0, 2))), rnd.randrange(3)))
    return (shape, rnd.choice('AV'), tuple(reg_bases), tuple(steps))


def chain_spec(rnd):
    """a chain >= 3 deep whose upper levels are re-based before lower ones (and registries created below afterwards)"""
    n = rnd.randint(2, 3)
    shape = common.random_shape(rnd, n, 1)
    depth = rnd.randint(3, 5)
    reg_bases = [(), ()] + [(k,) for k in range(1, depth)]       # two roots, then a chain under root 1
    steps = [('reg', rnd.choice([0, 1]), (rnd.randrange(4),), rnd.randrange(3)) for _ in range(rnd.randint(1, 2))]
    order = sorted(rnd.sample(range(2, depth + 1), rnd.randint(2, min(3, depth - 1))))
    for k in order:
        steps.append(('rebase', k, (rnd.choice([0, 1, k - 1]),) if k > 2 else (rnd.choice([0, 1]),), 0))
        if rnd.random() < 0.5:
            steps.append((rnd.choice(['reg', 'sub', 'warm']), rnd.choice([0, 1]), (rnd.randrange(4),), rnd.randrange(3)))
    # re-assign a lower registry's own bases to what they already are (must refresh it)
    low = rnd.randint(3, depth)
    steps.append(('rebase-same', low, (), 0))
    steps.append(('reg', rnd.choice([0, 1]), (rnd.randrange(4),), rnd.randrange(3)))
    return (shape, rnd.choice('AV'), tuple(reg_bases), tuple(steps))


def replay(spec):
    bad, _ = play(spec)
    for sig, what, known in bad:
        print('violated:', sig, what, '(recorded finding %s)' % known if known else '')
    sys.exit(1 if bad else 0)


def run(ctx):
    ctx.rule = ('random registry DAGs (<=4 registries, <=2 bases each, either flavour; every third: chains 3..5 deep re-based from the top down, then a lower registry re-assigned its own bases) with histories of <=7 __bases__ '
                'reassignments at any level, registrations/subscriptions in any member and warm-up lookups; after every step '
                'lookup/lookupAll/subscriptions of every registry compared with registries freshly built with the current bases; '
                'distinct = histories')
    ctx.bounds = 'registries<=4, history<=7'
    trials = 700 if ctx.tier == 'quick' else 8000
    for t in range(trials):
        if ctx.out_of_time() or ctx.too_many():
            return
        spec = random_spec(ctx.rnd) if t % 3 else chain_spec(ctx.rnd)
        bad, n = play(spec)
        ctx.evaluations += n
        ctx.distinct.add(spec)
        if t == 3:
            ctx.sample({'registry_bases': spec[2], 'history': [s[:2] for s in spec[3]]})
        for sig, what, known in bad:
            ctx.violation(known or sig, what, 'from falsify.C06 import replay\nreplay(%r)\n' % (spec,), known)
