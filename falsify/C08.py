"""C08 bounded check: every lookup entry point against lookup()/subscriptions() on the same real registry,
under different warm-up orders of the shared caches; defaults by identity; non-string names rejected on every path."""
import itertools
import sys

from zope.interface import Interface, implementedBy, classImplements, directlyProvides, providedBy
from zope.interface.adapter import AdapterRegistry, VerifyingAdapterRegistry

from falsify import common, regcommon

ENTRY = ['lookup', 'lookup1', 'lookupAll', 'names', 'queryAdapter', 'adapter_hook', 'queryMultiAdapter',
         'subscriptions', 'subscribers']


def build(spec):
    shape, flav, regs_spec, subs_spec, warm = spec
    ifs = common.build_interfaces(shape)
    Base = type(common.uname('KB'), (object,), {})
    Sub = type(common.uname('KS'), (Base,), {})
    classImplements(Base, ifs[0])
    classImplements(Sub, ifs[-1])
    R = AdapterRegistry if flav == 'A' else VerifyingAdapterRegistry
    base = R()
    r = R((base,))
    objs = [Base(), Sub()]
    directlyProvides(objs[0], ifs[len(ifs) // 2])
    made = []

    class FalsyRes(tuple):
        # a result that is falsy but not None (an adapter with __len__ 0 / __bool__ False): only None means "no adapter"
        def __bool__(self):
            return False

    def factory(tag, ret_none=False):
        def f(*a):
            made.append((tag, a))
            return None if ret_none else (FalsyRes((tag, a)) if tag % 2 else (tag, a))
        f.tag = tag
        return f
    specs = ifs + [implementedBy(Base), implementedBy(Sub)]
    for k, (ri, req_idx, p_idx, name, none) in enumerate(regs_spec):
        (base if ri == 0 else r).register(tuple(specs[i] for i in req_idx), ifs[p_idx], name, factory(k, none))
    for k, (ri, req_idx, p_idx) in enumerate(subs_spec):
        (base if ri == 0 else r).subscribe(tuple(specs[i] for i in req_idx), None if p_idx is None else ifs[p_idx], factory(100 + k, k % 3 == 2))
    return ifs, r, objs, Sub, made


def check(spec):
    ifs, r, objs, Sub, made = build(spec)
    warm = spec[4]
    bad = []
    n = 0
    sup = super(Sub, objs[1])
    cands = objs + [sup]
    names = ['', 'a']
    D = object()

    def expect_adapt(obs, p, name, default):
        f = r.lookup([providedBy(o) for o in obs], p, name)
        if f is None:
            return default
        del made[:]
        res = f(*[o.__self__ if isinstance(o, super) else o for o in obs])
        return default if res is None else res
    # warm-up: call some entry points first
    for w in warm:
        for o in cands:
            for p in ifs:
                if w == 'adapter_hook':
                    r.adapter_hook(p, o, '')
                elif w == 'lookup1':
                    r.lookup1(providedBy(o), p, '')
                elif w == 'lookup':
                    r.lookup((providedBy(o),), p, '')
                elif w == 'lookupAll':
                    r.lookupAll((providedBy(o),), p)
                elif w == 'subscriptions':
                    r.subscriptions((providedBy(o),), p)
    for o in cands:
        req1 = providedBy(o)
        for p in ifs:
            n += 1
            allp = dict(r.lookupAll((req1,), p))
            for name in names:
                exp = r.lookup((req1,), p, name)
                if r.lookup1(req1, p, name) is not exp:
                    bad.append(('lookup1', 'lookup1 differs from lookup((r,), p, %r) (warm-up %r)' % (name, warm)))
                if (r.lookup1(req1, p, name, D) is D) != (exp is None) or (r.lookup((req1,), p, name, D) is D) != (exp is None):
                    bad.append(('default', 'default is not returned by identity exactly when nothing is registered (warm-up %r)' % (warm,)))
                if allp.get(name) is not exp:
                    bad.append(('lookupAll', 'dict(lookupAll)[%r] is not lookup(..., %r) (warm-up %r)' % (name, name, warm)))
                want = expect_adapt([o], p, name, D)
                for ep in ('queryAdapter', 'adapter_hook'):
                    del made[:]
                    got = r.queryAdapter(o, p, name, D) if ep == 'queryAdapter' else r.adapter_hook(p, o, name, D)
                    if not (got is want or got == want):
                        bad.append((ep, '%s(%s, %r) is %r, calling the factory found by lookup gives %r (warm-up %r)' % (
                            ep, 'super proxy' if o is sup else 'object', name, got, want, warm)))
                    if made and o is sup and made[-1][1][0] is not objs[1]:
                        bad.append((ep + '-super', 'factory did not receive the object underlying the super proxy'))
                del made[:]
                got = r.queryMultiAdapter((o,), p, name, D)
                if not (got is want or got == want):
                    bad.append(('queryMultiAdapter', 'queryMultiAdapter differs from lookup+call for name %r' % name))
            if sorted(r.names((req1,), p)) != sorted(allp):
                bad.append(('names', 'names() is not the key list of lookupAll()'))
            if set(allp) != {nm for nm in names if r.lookup((req1,), p, nm) is not None}:
                bad.append(('lookupAll-keys', 'lookupAll lists %r, lookup finds %r' % (sorted(allp), [nm for nm in names if r.lookup((req1,), p, nm) is not None])))
        for p in ifs + [None]:
            subs = r.subscriptions((req1,), p)
            del made[:]
            got = r.subscribers((o,), p)
            called = [t for t, a in made]
            if called != [f.tag for f in subs]:
                bad.append(('subscribers-calls', 'subscribers() called %r, subscriptions() lists %r' % (called, [f.tag for f in subs])))
            if p is None:
                if got not in ((), []):
                    bad.append(('subscribers-handlers', 'subscribers(..., None) returned %r' % (got,)))
            else:
                exp = [x for x in (f(o) for f in subs) if x is not None]
                if [x[0] for x in got] != [x[0] for x in exp]:
                    bad.append(('subscribers', 'subscribers() results differ from calling subscriptions() in order and dropping None'))
    # multi-adapters
    for a, b in itertools.product(cands[:2], repeat=2):
        for p in ifs[:2]:
            for name in names:
                want = expect_adapt([a, b], p, name, D)
                got = r.queryMultiAdapter((a, b), p, name, D)
                if not (got is want or got == want):
                    bad.append(('queryMultiAdapter2', 'queryMultiAdapter on two objects differs from lookup+call'))
    # non-string names: rejected on every path, cached or not (the loops above warmed every cache)
    for badname in (b'', 0, None, ()):
        for ep, call in (('lookup', lambda nm: r.lookup((providedBy(objs[0]),), ifs[0], nm)),
                         ('lookup1', lambda nm: r.lookup1(providedBy(objs[0]), ifs[0], nm)),
                         ('queryAdapter', lambda nm: r.queryAdapter(objs[0], ifs[0], nm)),
                         ('adapter_hook', lambda nm: r.adapter_hook(ifs[0], objs[0], nm)),
                         ('queryMultiAdapter', lambda nm: r.queryMultiAdapter((objs[0],), ifs[0], nm))):
            try:
                call(badname)
                bad.append(('name-check', '%s accepted the non-string name %r (warm cache)' % (ep, badname)))
            except ValueError:
                pass
            except TypeError:
                bad.append(('name-check', '%s raised TypeError instead of ValueError for name %r' % (ep, badname)))
    return bad, n


def random_spec(rnd):
    n = rnd.randint(2, 4)
    shape = common.random_shape(rnd, n, 2)
    regs = []
    for _ in range(rnd.randint(1, 6)):
        ar = rnd.choice([1, 1, 1, 2])
        regs.append((rnd.randrange(2), tuple(rnd.randrange(n + 2) for _ in range(ar)), rnd.randrange(n), rnd.choice(['', 'a']), rnd.random() < 0.15))
    subs = []
    for _ in range(rnd.randint(0, 4)):
        subs.append((rnd.randrange(2), (rnd.randrange(n + 2),), rnd.choice([None] + list(range(n)))))
    warm = tuple(rnd.sample(['adapter_hook', 'lookup1', 'lookup', 'lookupAll', 'subscriptions'], rnd.randint(0, 3)))
    return (shape, rnd.choice('AV'), tuple(regs), tuple(subs), warm)


def replay(spec):
    bad, _ = check(spec)
    for sig, what in bad[:8]:
        print('violated:', sig, what)
    sys.exit(1 if bad else 0)


def run(ctx):
    ctx.rule = ('random worlds (interface DAG <=4, class + subclass with declarations, directly providing instance, super '
                'proxy, two chained registries, <=6 adapter registrations incl. factories returning None, <=4 subscriptions '
                'incl. handlers), every entry point compared with lookup()/subscriptions() for all objects x provided x '
                'names under a random warm-up order of the shared caches; bad names on every path; distinct = worlds')
    ctx.bounds = 'interfaces<=4, registrations<=6, subscriptions<=4'
    regcommon.first_after_mutation(ctx, 'C08')
    trials = 250 if ctx.tier == 'quick' else 4000
    for t in range(trials):
        if ctx.out_of_time() or ctx.too_many():
            return
        spec = random_spec(ctx.rnd)
        bad, n = check(spec)
        ctx.evaluations += n * len(ENTRY)
        ctx.distinct.add(spec)
        if t == 2:
            ctx.sample({'world': repr(spec)[:300], 'entry_points': ENTRY})
        for sig, what in bad[:2]:
            ctx.violation(sig, what, 'from falsify.C08 import replay\nreplay(%r)\n' % (spec,))
