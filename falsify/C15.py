"""C15 bounded check: attribute, tagged-value and invariant resolution along __iro__ on interface DAGs in which
several ancestors define the same name or tag, fresh and after re-basing (with the per-interface memo warm)."""
import sys

from zope.interface import Interface, Attribute, Invalid
from zope.interface.interface import InterfaceClass

from falsify import common

NAMES = ('x', 'y')


def build(spec):
    shape, defs, tags, invs, steps = spec
    attrs = {}
    for k in range(len(shape)):
        d = {}
        for nm in NAMES:
            if (k, nm) in defs:
                d[nm] = Attribute('%s@%d' % (nm, k))
        attrs[k] = d
    ifs = common.build_interfaces(shape, attrs)
    for k, I in enumerate(ifs):
        if k in tags:
            I.setTaggedValue('t', k)
            if k % 2:
                I.setTaggedValue('u%d' % k, k)
    log = []
    for k, I in enumerate(ifs):
        if k in invs:
            def mk(k):
                def inv(obj):
                    log.append(k)
                    if k % 2 == 0:
                        raise Invalid('inv%d' % k)
                return inv
            I.setTaggedValue('invariants', [mk(k)])
    return ifs, log


def first(I, nm):
    for J in I.__iro__:
        d = J.direct(nm)
        if d is not None:
            return d
    return None


def checkall(ifs, log, tag):
    bad = []
    for I in ifs:
        # "all of these follow later changes of __bases__": the order itself is recomputed independently from the
        # current __bases__ (Python's MRO of the identically shaped class hierarchy) whenever a C3 order exists
        m = common.mirror_mro(I)
        if m is not None and (len(m) != len(I.__iro__) or any(a is not b for a, b in zip(m, I.__iro__))):
            return [('iro', '%s: %s.__iro__ is %r, the current __bases__ give %r' % (tag, I.__name__, common.names(I.__iro__), common.names(m)))]
        nad = dict(I.namesAndDescriptions(all=True))
        names_all = set(I.names(all=True))
        it = set(iter(I))
        for nm in NAMES + ('z',):
            f = first(I, nm)
            checks = [('get', I.get(nm)), ('queryDescriptionFor', I.queryDescriptionFor(nm)),
                      ('namesAndDescriptions', nad.get(nm))]
            for what, got in checks:
                if got is not f:
                    bad.append((what, '%s: %s.%s(%r) gives the description %s, the first definer along __iro__ gives %s' % (
                        tag, I.__name__, what, nm, getattr(got, '__doc__', got), getattr(f, '__doc__', f))))
            try:
                g = I[nm]
            except KeyError:
                g = None
            if g is not f:
                bad.append(('getitem', '%s: %s[%r] disagrees with the first definer along __iro__' % (tag, I.__name__, nm)))
            for what, got in (('contains', nm in I), ('names', nm in names_all), ('iter', nm in it)):
                if got is not (f is not None):
                    bad.append((what, '%s: presence of %r in %s via %s is %r' % (tag, nm, I.__name__, what, got)))
        tv = [J.queryDirectTaggedValue('t') for J in I.__iro__ if J.queryDirectTaggedValue('t') is not None]
        if I.queryTaggedValue('t') != (tv[0] if tv else None):
            bad.append(('tagged-value', '%s: %s.queryTaggedValue is %r, first along __iro__ is %r' % (tag, I.__name__, I.queryTaggedValue('t'), tv[0] if tv else None)))
        exp_tags = set()
        for J in I.__iro__:
            exp_tags |= set(J.getDirectTaggedValueTags())
        if set(I.getTaggedValueTags()) != exp_tags:
            bad.append(('tags', '%s: getTaggedValueTags of %s is %r, union along __iro__ is %r' % (tag, I.__name__, sorted(I.getTaggedValueTags()), sorted(exp_tags))))
        # invariants: every invariant of every interface in __iro__, in order; with a list all failures are collected
        exp_run = [k for J in I.__iro__ for k, X in enumerate(ifs) if X is J and J.queryDirectTaggedValue('invariants')]
        del log[:]
        errors = []
        try:
            I.validateInvariants(object(), errors)
            raised = False
        except Invalid:
            raised = True
        if log != exp_run:
            bad.append(('invariants-run', '%s: validateInvariants of %s ran %r, __iro__ order requires %r' % (tag, I.__name__, log[:], exp_run)))
        nfail = len([k for k in exp_run if k % 2 == 0])
        if len(errors) != nfail or raised != (nfail > 0):
            bad.append(('invariants-collect', '%s: validateInvariants collected %d failures (raised=%r), expected %d' % (tag, len(errors), raised, nfail)))
        del log[:]
        try:
            I.validateInvariants(object())
            r2 = False
        except Invalid:
            r2 = True
        if r2 != (nfail > 0):
            bad.append(('invariants-raise', '%s: validateInvariants without a list raised=%r, expected %r' % (tag, r2, nfail > 0)))
        if bad:
            return bad
    return bad


def play(spec):
    ifs, log = build(spec)
    bad = checkall(ifs, log, 'fresh')
    for si, (k, nb) in enumerate(spec[4]):
        if bad:
            break
        k = 1 + k % (len(ifs) - 1) if len(ifs) > 1 else 0
        cands = [x for x in ifs if not any(ifs[k] is y for y in common.ancestors(x))]
        new = []
        for j in nb:
            if cands:
                c = cands[j % len(cands)]
                if not any(c is y for y in new):
                    new.append(c)
        for I in ifs:          # warm the memo
            I.get('x'), I.get('y')
        if nb and nb[0] % 3 == 0 and len(ifs[k].__bases__) > 1:
            new = list(reversed(ifs[k].__bases__))       # a re-basing that only reorders
        try:
            ifs[k].__bases__ = tuple(new) or (Interface,)
        except TypeError:
            continue
        bad = checkall(ifs, log, 'after re-basing step %d' % si)
    return bad, len(ifs) * 12 * (1 + len(spec[4]))


def random_spec(rnd):
    n = rnd.randint(3, 5)
    shape = common.random_shape(rnd, n, 2)
    defs = tuple(sorted((k, nm) for k in range(n) for nm in NAMES if rnd.random() < 0.45))
    tags = tuple(k for k in range(n) if rnd.random() < 0.4)
    invs = tuple(k for k in range(n) if rnd.random() < 0.4)
    steps = tuple((rnd.randrange(10), tuple(rnd.randrange(10) for _ in range(rnd.randint(1, 2)))) for _ in range(rnd.randint(0, 3)))
    return (shape, defs, tags, invs, steps)


def replay(spec):
    bad, _ = play_permute(spec) if spec[4] == 'permute' else play(spec)
    for sig, what in bad[:6]:
        print('violated:', sig, what)
    sys.exit(1 if bad else 0)


# a chain below a join whose two bases both define x and carry tag t; re-basings that only permute the join's bases
PERMUTE = (((), (), (0, 1), (2,), (3,)), ((0, 'x'), (1, 'x'), (0, 'y')), (0, 1), (0, 1), 'permute')


def play_permute(spec):
    ifs, log = build(spec[:4] + ((),))
    bad = checkall(ifs, log, 'fresh')
    join = ifs[2]
    for si in range(3):
        if bad:
            break
        for I in ifs:
            I.get('x'), I.get('y')
        join.__bases__ = tuple(reversed(join.__bases__))
        bad = checkall(ifs, log, 'after permuting the bases of %s (step %d)' % (join.__name__, si))
    return bad, len(ifs) * 12 * 4


DIAMOND = (((), (0,), (0,), (1, 2)), ((0, 'x'), (2, 'x')), (0, 2), (0, 1, 2), ())


def run(ctx):
    ctx.rule = ('all definitions of 2 names over every ordered DAG shape with <=4 interfaces (quick: the README diamond family '
                'plus random) and random DAGs <=5 with random definers, tags and invariants, <=3 re-basings with warm memo; '
                '__iro__ itself compared with the order recomputed from the current __bases__ (Python MRO of the mirrored classes), every accessor compared with "first definer along __iro__"; re-basings include pure permutations below 3-deep chains; distinct = (shape, definers, history)')
    ctx.bounds = 'interfaces<=5, names=2, history<=3'
    bad, n = play(DIAMOND)
    ctx.evaluations += n
    ctx.distinct.add(DIAMOND)
    for sig, what in bad[:1]:
        ctx.violation(sig, what, 'from falsify.C15 import replay\nreplay(%r)\n' % (DIAMOND,))
    bad, n = play_permute(PERMUTE)
    ctx.evaluations += n
    ctx.distinct.add(PERMUTE)
    for sig, what in bad[:1]:
        ctx.violation(sig, what, 'from falsify.C15 import replay\nreplay(%r)\n' % (PERMUTE,))
    trials = 400 if ctx.tier == 'quick' else 5000
    for t in range(trials):
        if ctx.out_of_time() or ctx.too_many():
            return
        spec = random_spec(ctx.rnd)
        bad, n = play(spec)
        ctx.evaluations += n
        ctx.distinct.add(spec)
        if t == 3:
            ctx.sample({'shape': spec[0], 'definers': spec[1], 'rebasings': spec[4]})
        for sig, what in bad[:1]:
            ctx.violation(sig, what, 'from falsify.C15 import replay\nreplay(%r)\n' % (spec,))
