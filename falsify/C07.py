"""C07 bounded check: subscribe/unsubscribe histories (duplicates, equal-but-distinct values, handlers with
provided=None, arity 0..2, registry chains) against the multiset/ordering semantics of the statement."""
import itertools
import sys

from zope.interface import Interface, implementedBy, classImplements
from zope.interface.adapter import AdapterRegistry, VerifyingAdapterRegistry

from falsify import common, regcommon
from falsify.regcommon import Eq, Model


def play(spec):
    shape, flav, reg_bases, ops = spec
    ifs = common.build_interfaces(shape)
    R = AdapterRegistry if flav == 'A' else VerifyingAdapterRegistry
    regs = []
    for bs in reg_bases:
        regs.append(R(tuple(regs[b] for b in bs)))
    models = [Model() for _ in regs]
    vals = [Eq(0), Eq(0), Eq(1), object(), regcommon.Falsy(5)]
    pool = ifs + [None]
    bad = []
    nq = 0

    def observe(tag):
        nonlocal nq
        for r in regs:
            chain = [models[regs.index(x)] for x in r.ro]
            arities = sorted({len(o[2]) for o in ops} | {0})
            for ar in arities:
                for req in itertools.product(ifs, repeat=ar):
                    for p in ifs + [None]:
                        nq += 1
                        exp, amb = regcommon.subscriptions(chain, req, p)
                        got = r.subscriptions(req, p)
                        if amb:
                            if sorted(map(id, got)) != sorted(map(id, exp)):
                                bad.append(('multiset', '%s: subscriptions(%s, %s) multiset differs' % (tag, common.names(req), getattr(p, '__name__', p))))
                        elif regcommon.ids(got) != regcommon.ids(exp):
                            bad.append(('subscriptions', '%s: subscriptions(%s, %s) on registry %d is %r, the statement gives %r' % (
                                tag, common.names(req), getattr(p, '__name__', p), regs.index(r),
                                [vals.index(x) if x in vals else x for x in got], [next(i for i, v in enumerate(vals) if v is x) for x in exp])))
                        if bad:
                            return
    for step, (op, ri, req_idx, p_idx, vi) in enumerate(ops):
        req = tuple(pool[i] for i in req_idx)
        p = pool[p_idx]
        v = None if vi is None else vals[vi]
        if op == 'sub':
            regs[ri].subscribe(req, p, v)
            models[ri].subscribe(req, p, v)
        else:
            regs[ri].unsubscribe(req, p, v)
            models[ri].unsubscribe(req, p, v)
        # bookkeeping queries of the statement's last sentence
        for vv in vals:
            key = (regcommon.norm_req(req), p)
            live = models[ri].subs.get(key, [])
            exp_s = vv if any(x == vv for x in live) else None
            got_s = regs[ri].subscribed(req, p, vv)
            if (got_s is None) != (exp_s is None):
                bad.append(('subscribed', 'after step %d subscribed(...) is %r, expected %r' % (step, got_s, exp_s)))
        observe('after step %d (%s)' % (step, op))
        if bad:
            break
    return bad, nq


def random_spec(rnd):
    n = rnd.randint(2, 4)
    shape = common.random_shape(rnd, n, 2)
    nreg = rnd.randint(1, 3)
    reg_bases = [()]
    for k in range(1, nreg):
        reg_bases.append(tuple(rnd.sample(range(k), rnd.randint(1, min(2, k)))))
    if rnd.random() < 0.5:
        shape = tuple([()] + [(k - 1,) for k in range(1, n)])      # a chain: related provided interfaces
    keys = [(tuple(rnd.randrange(n + 1) for _ in range(rnd.choice([0, 1, 1, 2]))), rnd.randrange(n + 1)) for _ in range(3)]
    if rnd.random() < 0.6:
        keys[1] = (keys[0][0], rnd.randrange(n + 1))          # same required, another provided
    ops = []
    for _ in range(rnd.randint(2, 6)):
        k = rnd.choice(keys)
        if rnd.random() < 0.65:
            ops.append(('sub', rnd.randrange(nreg), k[0], k[1], rnd.randrange(4)))
        else:
            ops.append(('unsub', rnd.randrange(nreg), k[0], k[1], rnd.choice([None, 0, 1, 2, 3, 4])))
    return (shape, rnd.choice('AV'), tuple(reg_bases), tuple(ops))


def replay(spec):
    bad, _ = play(spec)
    for sig, what in bad:
        print('violated:', sig, what)
    sys.exit(1 if bad else 0)


def run(ctx):
    ctx.rule = ('random histories of <=6 subscribe/unsubscribe calls over 2 keys (arity 0..2, None required, provided None for '
                'handlers), values with equal-but-distinct members, registry chains <=3 of either flavour, interface DAG <=4; '
                'after every step every subscriptions() key and subscribed() compared with the reference model of the '
                'statement (order: base registries first, less specific first, subscription order); distinct = histories')
    ctx.bounds = 'history<=6, interfaces<=4, registries<=3'
    regcommon.first_after_mutation(ctx, 'C07')
    trials = 900 if ctx.tier == 'quick' else 8000
    for t in range(trials):
        if ctx.out_of_time() or ctx.too_many():
            return
        spec = random_spec(ctx.rnd)
        bad, n = play(spec)
        ctx.evaluations += n
        ctx.distinct.add(spec)
        if t == 5:
            ctx.sample({'history': repr(spec[3]), 'queries': n})
        for sig, what in bad:
            ctx.violation(sig + ':' + repr(spec), what, 'from falsify.C07 import replay\nreplay(%r)\n' % (spec,))
