"""Bounded witness search / run-time contract checking on the REAL code (never counted as proved).

Run by /venv/bin/python:  harness.py <Cxx> --tier T --seed S --mode c|py --tree DIR --out FILE
``--tree`` is the directory that contains ``zope/interface`` to be used (the working tree of /repo for the
Python implementation, a scratch copy with a freshly compiled accelerator for the C implementation).
"""
import argparse
import importlib
import json
import os
import random
import sys
import time
import traceback


class Ctx:
    def __init__(self, tier, seed, mode):
        self.tier = tier
        self.seed = seed
        self.mode = mode
        self.rnd = random.Random(seed)
        self.evaluations = 0
        self.distinct = set()
        self.violations = []
        self.samples = []
        self.rule = ''
        self.bounds = ''
        self.t0 = time.time()
        self.budget = 60 if tier == 'quick' else 600

    def case(self, key=None):
        self.evaluations += 1
        if key is not None and len(self.distinct) < 200000:
            self.distinct.add(key)

    def sample(self, s):
        if len(self.samples) < 4:
            self.samples.append(s)

    def violation(self, sig, what, script, known=None):
        # keep the first witness of each signature
        if any(v['sig'] == sig for v in self.violations):
            return
        self.violations.append({'sig': sig, 'what': what, 'script': script, 'known': known})

    def out_of_time(self):
        return time.time() - self.t0 > self.budget

    def too_many(self):
        return len([v for v in self.violations if v['known'] is None]) >= 3


def main():
    ap = argparse.ArgumentParser()
    ap.add_argument('prop')
    ap.add_argument('--tier', default='quick')
    ap.add_argument('--seed', type=int, default=0)
    ap.add_argument('--mode', default='py')
    ap.add_argument('--tree', required=True)
    ap.add_argument('--out', required=True)
    a = ap.parse_args()
    import zope
    zope.__path__.insert(0, os.path.join(a.tree, 'zope'))
    import zope.interface
    assert zope.interface.__file__.startswith(os.path.realpath(a.tree)) or \
        zope.interface.__file__.startswith(a.tree), (zope.interface.__file__, a.tree)
    from zope.interface import declarations
    is_c = 'Py' not in type(declarations.providedBy).__name__ and type(declarations.providedBy).__name__ != 'function'
    if a.mode == 'c' and not is_c:
        raise SystemExit('C mode requested but the accelerator is not in use')
    if a.mode == 'py' and is_c:
        raise SystemExit('Python mode requested but the accelerator is in use')
    sys.path.insert(0, os.path.dirname(os.path.dirname(os.path.abspath(__file__))))
    mod = importlib.import_module('falsify.' + a.prop)
    ctx = Ctx(a.tier, a.seed, a.mode)
    try:
        mod.run(ctx)
    except Exception:
        ctx.violations.append({'sig': 'harness-exception', 'what': 'exception escaped the bounded run: ' +
                               traceback.format_exc()[-1500:], 'script': None, 'known': None, 'harness_error': True})
    with open(a.out, 'w') as f:
        json.dump({'evaluations': ctx.evaluations, 'distinct': len(ctx.distinct), 'violations': ctx.violations,
                   'samples': ctx.samples, 'rule': ctx.rule, 'bounds': ctx.bounds,
                   'traces': getattr(ctx, 'traces', None)}, f, default=str)


if __name__ == '__main__':
    main()
