"""C01 bounded check: random histories of declaration calls, subclass/instance creation and queries over small
class DAGs (multiple inheritance) and interface DAGs, against a ghost-history specification with two-sided bounds
("a declaration that is redundant when it is made MAY be dropped")."""
import sys

from zope.interface import (Interface, implementedBy, providedBy, classImplements, classImplementsOnly,
                            classImplementsFirst, directlyProvides, alsoProvides, noLongerProvides, implementer,
                            implementer_only, provider)

from falsify import common

KNOWN = 'C01-redundant-instance-declaration-after-class-narrowing'
OPS = ['sub', 'inst', 'inst', 'ci', 'ci', 'cio', 'cif', 'dp', 'dp', 'ap', 'ap', 'nlp', 'impl', 'implonly', 'query']


def close(ifs):
    out = {}
    for i in ifs:
        for j in i.__iro__:
            out[id(j)] = j
    out[id(Interface)] = Interface
    return out


def play(spec):
    shape, steps = spec[:2]
    qseed = spec[2] if len(spec) > 2 else None      # order in which classes are queried (= order their specifications are first built)
    ifs = common.build_interfaces(shape)
    classes = [type(common.uname('K'), (object,), {})]
    objs = []
    lo = {classes[0]: []}
    hi = {classes[0]: []}
    inh = {classes[0]: True}
    dlo, dhi = {}, {}
    redundant = set()            # (class, interface id): declared on an instance while the class implied it
    narrowed = set()             # classes narrowed by an *only* form afterwards

    def impl(c, tab):
        s = list(tab.get(c, []))
        if inh.get(c, True):
            for b in c.__bases__:
                if b is not object:
                    s += list(impl(b, tab).values())
        return close(s)

    def check(tag):
        bad = []
        order = list(classes)
        if qseed is not None:
            import random
            random.Random(qseed * 31 + len(classes)).shuffle(order)
        for c in order:
            got = {id(i): i for i in implementedBy(c).flattened()}
            L, H = impl(c, lo), impl(c, hi)
            if not (set(L) <= set(got) <= set(H)):
                bad.append(('implementedBy', '%s: implementedBy(%s) reports %s; declared/inherited interfaces give at least %s and at most %s' % (
                    tag, c.__name__, common.names(got.values()), common.names(L.values()), common.names(H.values())), None))
            for i in ifs:
                if i.implementedBy(c) is not (id(i) in got):
                    bad.append(('I.implementedBy', '%s: %s.implementedBy(%s) disagrees with implementedBy()' % (tag, i.__name__, c.__name__), None))
        for o in objs:
            got = {id(i): i for i in providedBy(o).flattened()}
            L = {**close(dlo.get(id(o), [])), **impl(type(o), lo)}
            H = {**close(dhi.get(id(o), [])), **impl(type(o), hi)}
            if not (set(L) <= set(got) <= set(H)):
                missing = [L[k] for k in L if k not in got]
                known = bool(missing) and set(got) <= set(H) and all(
                    any((c, id(j)) in redundant and any(n in type(o).__mro__ for n in narrowed)
                        for c in type(o).__mro__ for j in ifs if m in j.__iro__)
                    for m in missing)
                bad.append(('providedBy', '%s: providedBy(instance %d of %s) reports %s; direct + class declarations give at least %s and at most %s' % (
                    tag, objs.index(o), type(o).__name__, common.names(got.values()), common.names(L.values()), common.names(H.values())),
                    KNOWN if known else None))
            for i in ifs:
                if i.providedBy(o) is not (id(i) in got):
                    bad.append(('I.providedBy', '%s: %s.providedBy(ob) disagrees with providedBy(ob)' % (tag, i.__name__), None))
        return bad

    n = 0
    log = []
    for si, st in enumerate(steps):
        op = st[0]
        I = [ifs[k % len(ifs)] for k in st[2]]
        if op == 'sub':
            bs = []
            for k in st[2][:2] or (0,):
                c = classes[k % len(classes)]
                if c not in bs:
                    bs.append(c)
            try:
                c = type(common.uname('K'), tuple(bs), {})
            except TypeError:
                continue
            classes.append(c)
            lo[c], hi[c], inh[c] = [], [], True
        elif op == 'inst':
            objs.append(classes[st[1] % len(classes)]())
        elif op in ('ci', 'cif', 'impl'):
            c = classes[st[1] % len(classes)]
            if op == 'cif':
                I = I[:1] or [ifs[0]]
            H = impl(c, hi)
            keep = [i for i in I if id(i) not in H]
            lo[c] = lo[c] + [i for i in keep if not any(i is x for x in lo[c])]
            hi[c] = hi[c] + [i for i in I if not any(i is x for x in hi[c])]
            if op == 'ci':
                classImplements(c, *I)
            elif op == 'impl':
                implementer(*I)(c)
            else:
                classImplementsFirst(c, I[0])
        elif op in ('cio', 'implonly'):
            c = classes[st[1] % len(classes)]
            lo[c] = hi[c] = list({id(i): i for i in I}.values())
            inh[c] = False
            narrowed.add(c)
            (classImplementsOnly(c, *I) if op == 'cio' else implementer_only(*I)(c))
        elif op in ('dp', 'ap') and objs:
            o = objs[st[1] % len(objs)]
            H = impl(type(o), hi)
            for i in I:
                if id(i) in H:
                    redundant.add((type(o), id(i)))
            if op == 'dp':
                dlo[id(o)] = [i for i in I if id(i) not in H]
                dhi[id(o)] = list(I)
                directlyProvides(o, *I)
            else:
                dlo[id(o)] = dlo.get(id(o), []) + [i for i in I if id(i) not in H and not any(i is x for x in dlo.get(id(o), []))]
                dhi[id(o)] = dhi.get(id(o), []) + [i for i in I if not any(i is x for x in dhi.get(id(o), []))]
                # re-declaration re-examines the earlier direct declarations against the class as it is now
                for i in dhi[id(o)]:
                    if id(i) in H:
                        redundant.add((type(o), id(i)))
                alsoProvides(o, *I)
        elif op == 'nlp' and objs:
            o = objs[st[1] % len(objs)]
            X = ifs[st[3] % len(ifs)]
            dlo[id(o)] = [i for i in dlo.get(id(o), []) if not any(X is j for j in i.__iro__)]
            dhi[id(o)] = [i for i in dhi.get(id(o), []) if not any(X is j for j in i.__iro__)]
            H = impl(type(o), hi)
            for i in dhi[id(o)]:      # noLongerProvides re-declares what is left, against the class as it is now
                if id(i) in H:
                    redundant.add((type(o), id(i)))
            try:
                noLongerProvides(o, X)
            except ValueError:
                pass
        elif op == 'query':
            check('query')
            continue
        else:
            continue
        log.append(op)
        bad = check('after step %d (%s; history %s)' % (si, op, log))
        n += len(classes) + len(objs)
        if bad:
            return bad, n
    return [], n


def random_spec(rnd):
    n = rnd.randint(2, 3)
    shape = common.random_shape(rnd, n, 2)
    steps = tuple((rnd.choice(OPS), rnd.randrange(6), tuple(rnd.randrange(6) for _ in range(rnd.randint(0, 2))), rnd.randrange(6))
                  for _ in range(rnd.randint(3, 9)))
    return (shape, steps)


def dag_spec(rnd):
    """a layered class DAG built first (children of one root class, classes joining some of them, classes joining a
    join with a shallower class: several paths of different length to the root), specifications first computed in a
    random order, then declarations that add to / narrow the classes near the top"""
    n = rnd.randint(2, 3)
    shape = common.random_shape(rnd, n, 1)
    steps = [('ci', 0, (rnd.randrange(6),), 0)]
    layer1 = list(range(1, rnd.randint(3, 4) + 1))
    for k in layer1:
        steps.append(('sub', 0, (0,), 0))
    nxt = layer1[-1] + 1
    layer2 = []
    for _ in range(rnd.randint(1, 2)):
        steps.append(('sub', 0, tuple(rnd.sample(layer1, rnd.randint(1, 2))), 0))
        layer2.append(nxt)
        nxt += 1
    for _ in range(rnd.randint(1, 2)):
        a = rnd.choice(layer2)
        b = rnd.choice(layer1 + layer2)
        steps.append(('sub', 0, (a, b) if rnd.random() < 0.7 else (b, a), 0))
        nxt += 1
    if rnd.random() < 0.4:
        steps.insert(rnd.randint(2, len(steps)), ('ci', rnd.randrange(1, 4), (rnd.randrange(6),), 0))
    for _ in range(rnd.randint(1, 2)):
        steps.append((rnd.choice(['cio', 'cio', 'implonly', 'ci', 'cif']), rnd.choice([0, 0, 0, 1]), (rnd.randrange(6),), 0))
        if rnd.random() < 0.25:
            steps.append(('inst', rnd.randrange(nxt), (), 0))
            steps.append((rnd.choice(['dp', 'ap']), 0, (rnd.randrange(6),), 0))
    return (shape, tuple(steps), rnd.randrange(1000))


def replay(spec):
    bad, _ = play(spec)
    for sig, what, known in bad[:5]:
        print('violated:', sig, what, '(recorded finding)' if known else '')
    sys.exit(1 if bad else 0)


def run(ctx):
    ctx.rule = ('(every third: a layered class DAG of 5..9 classes with paths of different length to one root built first, specifications first computed in a random order, then declarations near the top) random histories of <=9 steps over {subclass creation (multiple inheritance), instance creation, '
                'classImplements, classImplementsOnly, classImplementsFirst, implementer, implementer_only, directlyProvides, '
                'alsoProvides, noLongerProvides, queries} on an interface DAG <=3; after every step implementedBy/providedBy and '
                'I.implementedBy/I.providedBy of every class and instance checked against the two-sided ghost-history bounds; '
                'distinct = histories')
    ctx.bounds = 'random history<=9; exhaustive sequences<=3/4 over 15 instance-level calls; exhaustive sequences<=4/5 over 9 class-level calls on a base class and its subclass'
    # exhaustive: every sequence of <=3 (quick) / 4 (thorough) declaration calls on one instance of a class K0 and K0
    # itself, over the chain I0 <- I1 <- I2 (one argument each)
    import itertools
    chain = ((), (0,), (1,))
    alphabet = [(op, 0, (k,), k) for op in ('dp', 'ap', 'nlp', 'ci', 'cio') for k in range(3)]
    for ln in range(1, (3 if ctx.tier == 'quick' else 4) + 1):
        for seq in itertools.product(alphabet, repeat=ln):
            if ctx.out_of_time() or ctx.too_many():
                return
            spec = (chain, (('inst', 0, (), 0),) + seq)
            bad, n = play(spec)
            ctx.evaluations += n
            ctx.distinct.add(spec)
            for sig, what, known in bad[:1]:
                ctx.violation(known or sig, what, 'from falsify.C01 import replay\nreplay(%r)\n' % (spec,), known)
    # exhaustive: every sequence of <=4 (quick) / 5 (thorough) class-level declaration calls on a base class K0 and its
    # subclass K1 (re-declarations of an interface a class already declares, a base that starts or stops implementing it)
    alphabet2 = [('ci', 1, (0,), 0), ('cif', 1, (0,), 0), ('ci', 0, (0,), 0), ('cio', 0, (2,), 0), ('cif', 1, (1,), 0),
                 ('ci', 1, (1,), 0), ('cio', 0, (0,), 0), ('cif', 0, (0,), 0), ('ci', 0, (1,), 0)]
    for ln in range(1, (4 if ctx.tier == 'quick' else 5) + 1):
        for seq in itertools.product(alphabet2, repeat=ln):
            if ctx.out_of_time() or ctx.too_many():
                return
            spec = (chain, (('sub', 0, (0,), 0), ('inst', 1, (), 0)) + seq)
            bad, n = play(spec)
            ctx.evaluations += n
            ctx.distinct.add(spec)
            for sig, what, known in bad[:1]:
                ctx.violation(known or sig, what, 'from falsify.C01 import replay\nreplay(%r)\n' % (spec,), known)
    trials = 1500 if ctx.tier == 'quick' else 20000
    for t in range(trials):
        if ctx.out_of_time() or ctx.too_many():
            return
        spec = random_spec(ctx.rnd) if t % 3 else dag_spec(ctx.rnd)
        bad, n = play(spec)
        ctx.evaluations += n
        ctx.distinct.add(spec)
        if t == 3:
            ctx.sample({'history': [s[0] for s in spec[1]]})
        for sig, what, known in bad[:1]:
            ctx.violation(known or sig, what, 'from falsify.C01 import replay\nreplay(%r)\n' % (spec,), known)
