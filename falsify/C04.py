"""C04 bounded check: lookup() against the statement's ranking (earliest registry, required positions left to
right by resolution-order position, most general provided), computed by brute force over a reference model."""
import sys

from zope.interface import Interface, implementedBy, classImplements
from zope.interface.adapter import AdapterRegistry, VerifyingAdapterRegistry

from falsify import common, regcommon
from falsify.regcommon import Model


def build(seed_rnd, spec):
    """spec = (shape, flavour, reg_bases, registrations); everything derived deterministically from spec"""
    shape, flav, reg_bases, regs_spec, class_ifaces = spec
    ifs = common.build_interfaces(shape)
    K = type(common.uname('K'), (object,), {})
    if class_ifaces:
        classImplements(K, *[ifs[i] for i in class_ifaces])
    pool = ifs + [implementedBy(K), None]
    R = AdapterRegistry if flav == 'A' else VerifyingAdapterRegistry
    regs = []
    for bs in reg_bases:
        regs.append(R(tuple(regs[b] for b in bs)))
    models = [Model() for _ in regs]
    vals = []
    for (ri, req_idx, p_idx, name) in regs_spec:
        req = tuple(pool[i] for i in req_idx)
        v = object()
        vals.append(v)
        regs[ri].register(req, ifs[p_idx], name, v)
        models[ri].register(req, ifs[p_idx], name, v)
    return ifs, K, pool, regs, models, vals


def check(spec, queries=None):
    ifs, K, pool, regs, models, vals = build(None, spec)
    bad = []
    n = 0
    qpool = ifs + [implementedBy(K)]
    import itertools
    for r in regs:
        chain = [models[regs.index(x)] for x in r.ro]
        arities = sorted({len(q[1]) for q in spec[3]} | {0, 1})
        for ar in arities:
            for req in itertools.product(qpool, repeat=ar):
                for p in ifs:
                    for name in ('', 'a'):
                        n += 1
                        exp, amb = regcommon.best(chain, req, p, name)
                        if amb:
                            got = r.lookup(req, p, name)
                            ok = regcommon.acceptable(chain, req, p, name)
                            if not any(got is v for v in ok):
                                bad.append(('lookup-tie', 'lookup(%s, %s, %r) on registry %d returned registration #%s although a tied registration '
                                            'with a strictly more general provided interface exists (allowed: %s)' % (
                                                common.names(req), p.__name__, name, regs.index(r),
                                                vals.index(got) if got in vals else got, [vals.index(v) for v in ok])))
                                return bad, n
                            continue
                        got = r.lookup(req, p, name)
                        if got is not exp:
                            bad.append(('lookup', 'lookup(%s, %s, %r) on registry %d returned registration #%s, the statement selects #%s' % (
                                common.names(req), p.__name__, name, regs.index(r),
                                vals.index(got) if got in vals else got, vals.index(exp) if exp in vals else exp)))
                        d = object()
                        if exp is None and r.lookup(req, p, name, d) is not d:
                            bad.append(('default', 'default not returned by identity'))
                        if bad:
                            return bad, n
    return bad, n


def random_spec(rnd):
    n = rnd.randint(2, 5)
    shape = common.random_shape(rnd, n, 2)
    flav = rnd.choice('AV')
    nreg = rnd.randint(1, 3)
    reg_bases = [()]
    for k in range(1, nreg):
        reg_bases.append(tuple(rnd.sample(range(k), rnd.randint(1, min(2, k)))))
    class_ifaces = tuple(rnd.sample(range(n), rnd.randint(0, 2)))
    regs = []
    ar = rnd.choice([0, 1, 1, 2, 2, 3])
    for _ in range(rnd.randint(1, 6)):
        a = ar if rnd.random() < 0.8 else rnd.randint(0, 2)
        regs.append((rnd.randrange(nreg), tuple(rnd.randrange(n + 2) for _ in range(a)), rnd.randrange(n), rnd.choice(['', '', 'a'])))
    return (shape, flav, tuple(reg_bases), tuple(regs), class_ifaces)


def provided_order_spec(rnd):
    """one required key and name, registrations for many provided interfaces of a deeper DAG in a random order of
    registration (the order in which the extendors lists are built must not matter)"""
    n = rnd.randint(4, 6)
    shape = common.random_shape(rnd, n, 2)
    if rnd.random() < 0.5:
        # a root, an interface with several children, and interfaces unrelated to it
        n = rnd.randint(5, 6)
        shape = ((), (0,), (1,), (1,), (0,)) + (((rnd.choice([0, 1, 4]),),) if n == 6 else ())
    ar = rnd.choice([0, 1])
    req = tuple(rnd.randrange(n + 2) for _ in range(ar))
    order = [k for k in range(n) if rnd.random() < 0.85]
    rnd.shuffle(order)
    regs = [(0, req, k, '') for k in order]
    return (shape, rnd.choice('AV'), ((),), tuple(regs), ())


def replay(spec):
    bad, _ = check(spec)
    for sig, what in bad:
        print('violated:', sig, what)
    sys.exit(1 if bad else 0)


def run(ctx):
    ctx.rule = ('random worlds (three of four: a single key registered for most provided interfaces of a DAG <=6 in random order): interface DAG <=5 nodes (<=2 ordered bases), one class declaring <=2 interfaces, registry '
                'chain <=3 of either flavour, <=6 registrations of arity 0..3 with None / class-specification keys and two '
                'names; every lookup key over all specifications (arity of the registrations, 0 and 1) x all provided x '
                'names compared with the brute-force ranking of the statement (ties between incomparable provided '
                'interfaces: the answer must be one of the most general tied ones); distinct = distinct worlds')
    ctx.bounds = 'interfaces<=5, registries<=3, registrations<=6, arity<=3'
    trials = 1600 if ctx.tier == 'quick' else 12000
    for t in range(trials):
        if ctx.out_of_time() or ctx.too_many():
            return
        spec = random_spec(ctx.rnd) if t % 4 == 0 else provided_order_spec(ctx.rnd)
        bad, n = check(spec)
        ctx.evaluations += n
        ctx.distinct.add(spec)
        if t == 3:
            ctx.sample({'world': repr(spec)[:300], 'queries': n})
        for sig, what in bad:
            ctx.violation(sig + ':' + repr(spec), what, 'from falsify.C04 import replay\nreplay(%r)\n' % (spec,))
