"""C10 bounded check: differential execution of generated API programs under the C accelerator and under
PURE_PYTHON (the harness runs once per implementation and the traces are compared by the check).
A trace is the list of normalised outcomes (value shape or exception type) of every step of a program."""
import itertools
import json
import os
import subprocess
import sys

from zope.interface import (Interface, Declaration, implementer, implementer_only, implementedBy, providedBy,
                            directlyProvides, alsoProvides, classImplements, interfacemethod)
from zope.interface import declarations
from zope.interface.interface import InterfaceClass, adapter_hooks, InterfaceBase, SpecificationBase, Specification
from zope.interface.adapter import AdapterRegistry, VerifyingAdapterRegistry, LookupBase, VerifyingBase


class Boom(Exception):
    pass


def norm(x, depth=0):
    if x is None or isinstance(x, (bool, int, str, bytes, float)):
        return repr(x)
    if x is NotImplemented:
        return 'NotImplemented'
    if isinstance(x, (tuple, list)) and depth < 4:
        return [type(x).__name__] + [norm(y, depth + 1) for y in x]
    if isinstance(x, dict) and depth < 4:
        return ['dict'] + sorted((norm(k, depth + 1), norm(v, depth + 1)) for k, v in x.items())
    if isinstance(x, InterfaceClass):
        return 'iface:%s.%s' % (x.__module__, x.__name__)
    if isinstance(x, SpecificationBase):
        try:
            return 'spec:' + ','.join(sorted('%s' % i.__name__ for i in x.flattened()))
        except Exception:
            return 'spec'
    if isinstance(x, type):
        return 'class:' + x.__name__
    return 'obj:' + type(x).__name__


def attempt(f):
    try:
        return norm(f())
    except BaseException as e:      # the exception TYPE is the observable
        if isinstance(e, (KeyboardInterrupt, SystemExit)):
            raise
        return 'raises:' + type(e).__name__


class I(Interface):
    pass


class J(I):
    pass


class K0(Interface):
    pass


@implementer(J)
class Cls:
    pass


class Unhashable:
    __hash__ = None


class RaisingHash:
    def __hash__(self):
        raise Boom('hash')


class RaisingEq:
    def __hash__(self):
        return hash(('I', __name__))

    def __eq__(self, o):
        raise Boom('eq')


class NoName:
    __module__ = 'm'


class NameOnly:
    __name__ = 'I'


class NameRaises:
    __module__ = 'm'

    @property
    def __name__(self):
        raise Boom('name')


class NamedLikeI:
    __name__ = 'I'
    __module__ = I.__module__


class ProvidesNone:
    __provides__ = None


class ProvidesJunk:
    __provides__ = 42


class ProvidesRaises:
    @property
    def __provides__(self):
        raise Boom('provides')


class ProvidedByJunk:
    __providedBy__ = 42


class ProvidedByRaises:
    @property
    def __providedBy__(self):
        raise Boom('providedBy')


class ProvidedByAttrErr:
    @property
    def __providedBy__(self):
        raise AttributeError('providedBy')


class ClassRaises:
    @property
    def __class__(self):
        raise Boom('class')


class _UnsetSpec(Specification):
    def __init__(self):      # Specification.__init__ never runs: the _implied slot stays unset
        pass


class ProvidedByUnsetSpec:
    __providedBy__ = _UnsetSpec()


def odd_values():
    ob = Cls()
    dob = Cls()
    directlyProvides(dob, K0)
    return [('None', None), ('int', 3), ('str', 'x'), ('list', []), ('dict', {}), ('object', object()), ('I', I), ('J', J),
            ('Cls', Cls), ('ob', ob), ('dob', dob), ('unhashable', Unhashable()), ('raising-hash', RaisingHash()),
            ('raising-eq', RaisingEq()), ('no-name', NoName()), ('name-only', NameOnly()), ('name-raises', NameRaises()),
            ('named-like-I', NamedLikeI()), ('provides-None', ProvidesNone()), ('provides-junk', ProvidesJunk()),
            ('provides-raises', ProvidesRaises()), ('providedBy-junk', ProvidedByJunk()),
            ('providedBy-raises', ProvidedByRaises()), ('providedBy-attrerr', ProvidedByAttrErr()),
            ('providedBy-unset-spec', ProvidedByUnsetSpec()),
            ('class-raises', ClassRaises()), ('builtin-type', int), ('function', norm), ('module', json),
            ('super', super(Cls, ob)), ('implementedBy(Cls)', implementedBy(Cls)), ('Declaration', Declaration(I)),
            ('tuple', (I,)), ('Interface', Interface)]


def prog_spec_queries():
    out = []
    odd = odd_values()
    specs = [('Interface', Interface), ('I', I), ('J', J), ('implementedBy(Cls)', implementedBy(Cls)),
             ('providedBy(ob)', providedBy(Cls())), ('Declaration(I)', Declaration(I))]
    for sn, s in specs:
        for vn, v in odd:
            for mn in ('isOrExtends', 'providedBy', 'implementedBy', '__call__', 'extends'):
                m = getattr(s, mn, None)
                if m is None:
                    continue
                out.append(('%s.%s(%s)' % (sn, mn, vn), attempt(lambda: m(v))))
    return out


def prog_compare():
    import operator
    out = []
    ifs = [InterfaceClass(''.join(list(n)), (Interface,), {}, __module__=''.join(list(m))) for n, m in
           [('', ''), ('A', 'm'), ('A', 'n'), ('B', 'm'), ('Ж', 'm'), ('A\U0001F600', 'm'), ('A', 'm'),
            ('IРесурсА', 'm'), ('IРесурсБ', 'm'), ('Name', 'mod1'), ('Name', 'mod2')]]
    ifs.append(implementedBy(Cls))
    others = [v for _, v in odd_values()]
    ops = [('<', operator.lt), ('<=', operator.le), ('>', operator.gt), ('>=', operator.ge), ('==', operator.eq), ('!=', operator.ne)]
    for ai, a in enumerate(ifs):
        for bi, b in enumerate(ifs):
            for on, op in ops:
                out.append(('if%d %s if%d' % (ai, on, bi), attempt(lambda: op(a, b))))
        for oi, o in enumerate(others):
            for on, op in ops:
                out.append(('if%d %s odd%d' % (ai, on, oi), attempt(lambda: op(a, o))))
                out.append(('odd%d %s if%d' % (oi, on, ai), attempt(lambda: op(o, a))))
        out.append(('hash-consistent %d' % ai, attempt(lambda: hash(a) == hash((a.__name__, a.__module__)) if isinstance(a, InterfaceClass) else 'n/a')))
    out.append(('sorted', attempt(lambda: [norm(x) for x in sorted(ifs)])))
    return out


def prog_declarations():
    out = []
    for vn, v in odd_values():
        for fn in ('providedBy', 'implementedBy', 'getObjectSpecification'):
            f = getattr(declarations, fn)
            out.append(('%s(%s)' % (fn, vn), attempt(lambda: f(v))))
        out.append(('I.providedBy(%s) again' % vn, attempt(lambda: I.providedBy(v))))
    # descriptors with odd arguments
    cp = Cls.__dict__.get('__provides__')
    osd = declarations.objectSpecificationDescriptor
    for vn, v in odd_values()[:12]:
        out.append(('ClassProvides.__get__(%s, Cls)' % vn, attempt(lambda: cp.__get__(v, Cls))))
        if v is not None:       # __get__(None, None) is rejected by CPython's slot wrapper itself, not by the library
            out.append(('ClassProvides.__get__(None, %s)' % vn, attempt(lambda: cp.__get__(None, v))))
        out.append(('OSD.__get__(%s, Cls)' % vn, attempt(lambda: osd.__get__(v, Cls))))
        if v is not None:
            out.append(('OSD.__get__(None, %s)' % vn, attempt(lambda: osd.__get__(None, v))))
    return out


def prog_adapt():
    out = []

    class IC(Interface):
        @interfacemethod
        def __adapt__(self, obj):
            return 'custom' if obj == 1 else None
    confs = {
        'absent': object(),
        'conform-None': type('C', (), {'__conform__': lambda s, i: None})(),
        'conform-value': type('C', (), {'__conform__': lambda s, i: 'v'})(),
        'conform-falsy': type('C', (), {'__conform__': lambda s, i: 0})(),
        'conform-raises': type('C', (), {'__conform__': lambda s, i: (_ for _ in ()).throw(Boom())})(),
        'conform-AttributeError': type('C', (), {'__conform__': lambda s, i: (_ for _ in ()).throw(AttributeError())})(),
        'conform-TypeError': type('C', (), {'__conform__': lambda s, i: (_ for _ in ()).throw(TypeError())})(),
        'conform-attr-raises': type('C', (), {'__conform__': property(lambda s: (_ for _ in ()).throw(Boom()))})(),
        'conform-attr-AttributeError': type('C', (), {'__conform__': property(lambda s: (_ for _ in ()).throw(AttributeError()))})(),
        'conform-not-callable': type('C', (), {'__conform__': 5})(),
        'class-with-conform': type('C', (), {'__conform__': lambda s, i: 'unbound'}),
        'provides': Cls(),
        'providedBy-unset-spec': ProvidedByUnsetSpec(),
    }
    hooksets = {'none': [], 'None-then-value': [lambda i, o: None, lambda i, o: 'h'], 'falsy': [lambda i, o: ()],
                'raises': [lambda i, o: (_ for _ in ()).throw(Boom())], 'bad-arity': [lambda i: 'x']}
    for hn, hs in hooksets.items():
        adapter_hooks[:] = hs
        try:
            for cn, c in confs.items():
                for iface_n, iface in (('I', I), ('J', J), ('IC', IC)):
                    out.append(('%s(%s) hooks=%s' % (iface_n, cn, hn), attempt(lambda: iface(c))))
                    out.append(('%s(%s, alt) hooks=%s' % (iface_n, cn, hn), attempt(lambda: iface(c, 'alt'))))
                    out.append(('%s(%s, alternate=None) hooks=%s' % (iface_n, cn, hn), attempt(lambda: iface(c, alternate=None))))
            out.append(('I() hooks=%s' % hn, attempt(lambda: I())))
            out.append(('I(1,2,3) hooks=%s' % hn, attempt(lambda: I(1, 2, 3))))
            out.append(('I.__adapt__(ob) hooks=%s' % hn, attempt(lambda: I.__adapt__(Cls()))))
            out.append(('IC(1) hooks=%s' % hn, attempt(lambda: IC(1))))
        finally:
            adapter_hooks[:] = []
    return out


def prog_registry():
    out = []
    for R in (AdapterRegistry, VerifyingAdapterRegistry):
        base = R()
        r = R((base,))
        ob = Cls()
        dob = Cls()
        directlyProvides(dob, K0)
        base.register([I], K0, '', lambda o: None)
        r.register([J], K0, 'n', lambda o: ('n', o))
        r.register([None], I, '', lambda o: ('any', o))
        r.register([I, None], K0, '', lambda a, b: ('multi',))
        r.subscribe([I], K0, lambda o: ('sub', o))
        r.subscribe([I], None, lambda o: None)
        D = object()
        reqs = [('tuple', (J,)), ('list', [J]), ('generator', None), ('str', 'ab'), ('int', 3), ('None', None), ('empty', ()),
                ('pair', (J, K0)), ('unhashable-spec', ([],)), ('spec-of-ob', (providedBy(ob),))]
        provs = [('K0', K0), ('I', I), ('None', None), ('list', []), ('raising-hash', RaisingHash()), ('object', object())]
        names = [('empty', ''), ('n', 'n'), ('missing', 'zz'), ('bytes', b''), ('int', 0), ('None', None), ('str-subclass', type('S', (str,), {})('n'))]
        for rn, req in reqs:
            for pn, p in provs:
                for nn, nm in names:
                    rq = (x for x in (J,)) if rn == 'generator' else req
                    for rep in range(2):      # second round: answers (also None) come from the cache
                        out.append(('%s lookup(%s,%s,%s)#%d' % (R.__name__, rn, pn, nn, rep), attempt(lambda: r.lookup(rq, p, nm))))
                        rq = (x for x in (J,)) if rn == 'generator' else req
                        out.append(('%s lookup(...,default)#%d %s %s %s' % (R.__name__, rep, rn, pn, nn), attempt(lambda: r.lookup(rq, p, nm, D) is D)))
                rq = (x for x in (J,)) if rn == 'generator' else req
                out.append(('%s lookupAll(%s,%s)' % (R.__name__, rn, pn), attempt(lambda: sorted(k for k, v in r.lookupAll(rq, p)))))
                rq = (x for x in (J,)) if rn == 'generator' else req
                out.append(('%s subscriptions(%s,%s)' % (R.__name__, rn, pn), attempt(lambda: len(r.subscriptions(rq, p)))))
                rq = (x for x in (J,)) if rn == 'generator' else req
                out.append(('%s names(%s,%s)' % (R.__name__, rn, pn), attempt(lambda: sorted(r.names(rq, p)))))
        for vn, v in odd_values():
            for pn, p in provs[:3]:
                for nn, nm in names:
                    for rep in range(2):
                        out.append(('%s queryAdapter(%s,%s,%s)#%d' % (R.__name__, vn, pn, nn, rep), attempt(lambda: r.queryAdapter(v, p, nm, D) is D)))
                        out.append(('%s adapter_hook(%s,%s,%s)#%d' % (R.__name__, pn, vn, nn, rep), attempt(lambda: r.adapter_hook(p, v, nm))))
                        out.append(('%s lookup1(%s,%s,%s)#%d' % (R.__name__, vn, pn, nn, rep), attempt(lambda: r.lookup1(v, p, nm, D) is D)))
                out.append(('%s queryMultiAdapter((%s,ob),%s)' % (R.__name__, vn, pn), attempt(lambda: r.queryMultiAdapter((v, ob), p))))
                out.append(('%s subscribers((%s,),%s)' % (R.__name__, vn, pn), attempt(lambda: r.subscribers((v,), p))))
        out.append(('%s lookup no args' % R.__name__, attempt(lambda: r.lookup())))
        out.append(('%s lookup kw' % R.__name__, attempt(lambda: r.lookup(required=(J,), provided=K0, name='n', default=1))))
        out.append(('%s lookup bad kw' % R.__name__, attempt(lambda: r.lookup((J,), K0, nme='n'))))
        out.append(('%s changed' % R.__name__, attempt(lambda: r._v_lookup.changed(None))))
        out.append(('%s changed no arg' % R.__name__, attempt(lambda: r._v_lookup.changed())))
    # bare LookupBase / VerifyingBase subclasses
    class LB(LookupBase):
        def _uncached_lookup(self, required, provided, name=''):
            return None if name == 'none' else ('u', len(required), name)

        def _uncached_lookupAll(self, required, provided):
            return (('a', 1),)

        def _uncached_subscriptions(self, required, provided):
            return [1, 2]
    lb = LB()
    for nm in ('', 'x', 'none'):
        for rep in range(2):
            out.append(('LB.lookup %r #%d' % (nm, rep), attempt(lambda: lb.lookup((I,), K0, nm))))
            out.append(('LB.lookup default %r #%d' % (nm, rep), attempt(lambda: lb.lookup((I,), K0, nm, 'D'))))
            out.append(('LB.lookup1 default %r #%d' % (nm, rep), attempt(lambda: lb.lookup1(I, K0, nm, 'D'))))
            out.append(('LB.lookup pair %r #%d' % (nm, rep), attempt(lambda: lb.lookup((I, J), K0, nm))))
    out.append(('LB.lookupAll', attempt(lambda: lb.lookupAll((I,), K0))))
    out.append(('LB.subscriptions', attempt(lambda: lb.subscriptions((I,), K0))))
    out.append(('LB() no uncached', attempt(lambda: LookupBase().lookup((I,), K0))))
    return out


def prog_chain():
    """registry chains 3 and 4 deep of both flavours: every entry point of the LEAF is asked (so its caches are warm), then
    one registry of the chain -- also the root-most one -- is mutated, and the leaf is asked again; also rebuild() and
    re-basing in the middle of the chain"""
    out = []
    for R in (AdapterRegistry, VerifyingAdapterRegistry):
        for depth in (3, 4):
            for target in range(depth):
                for mutation in ('register', 'unregister', 'subscribe', 'unsubscribe', 'rebuild+register', 'rebase-up'):
                    chain = [R()]
                    for _ in range(depth - 1):
                        chain.append(R((chain[-1],)))
                    leaf = chain[-1]
                    spare = R()
                    spare.register([I], K0, '', 'spare')
                    for k, r in enumerate(chain):
                        r.register([I], K0, 'n%d' % k, 'v%d' % k)
                        r.subscribe([I], K0, 's%d' % k)
                    chain[0].register([I], K0, '', 'root')
                    ob = Cls()

                    def ask():
                        return [leaf.lookup((J,), K0, ''), leaf.lookup1(J, K0, 'n0'), sorted(leaf.lookupAll((J,), K0)),
                                list(leaf.subscriptions((J,), K0)), sorted(leaf.names((J,), K0)),
                                attempt(lambda: leaf.queryAdapter(ob, K0, 'zz', 'D')), leaf.lookup((I,), K0, 'new')]
                    tag = '%s depth %d, %s in registry %d of the chain' % (R.__name__, depth, mutation, target)
                    out.append((tag + ': before', attempt(ask)))
                    t = chain[target]
                    if mutation == 'register':
                        t.register([I], K0, 'new', 'NEW')
                        t.register([I], K0, '', 'REPLACED')
                    elif mutation == 'unregister':
                        t.unregister([I], K0, 'n%d' % target)
                    elif mutation == 'subscribe':
                        t.subscribe([I], K0, 'SNEW')
                    elif mutation == 'unsubscribe':
                        t.unsubscribe([I], K0, 's%d' % target)
                    elif mutation == 'rebuild+register':
                        t.unregister([I], K0, 'n%d' % target)
                        t.rebuild()
                        t.register([I], K0, 'new', 'NEW')
                    elif mutation == 'rebase-up' and target > 0:
                        t.__bases__ = (spare,)
                    out.append((tag + ': after', attempt(ask)))
                    out.append((tag + ': again', attempt(ask)))
    return out


def prog_constructors():
    """the constructors of the base classes the accelerator replaces, called the ways their Python signatures allow"""
    out = []
    for kw in ({}, {'name': 'x'}, {'module': 'm'}, {'name': 'x', 'module': 'm'}, {'__name__': 'x'}, {'__module__': 'm'}, {'bogus': 1}):
        def make(kw=kw):
            b = InterfaceBase(**kw)
            return ('ok', b.__name__)
        out.append(('InterfaceBase(**%r)' % (sorted(kw),), attempt(make)))
    for args in ((), ('x',), ('x', 'm'), ('x', 'm', 1)):
        def make2(args=args):
            b = InterfaceBase(*args)
            return ('ok', b.__name__)
        out.append(('InterfaceBase(*%r)' % (args,), attempt(make2)))
    out.append(('SpecificationBase()', attempt(lambda: type(SpecificationBase()).__name__)))
    out.append(('SpecificationBase(1)', attempt(lambda: type(SpecificationBase(1)).__name__)))
    out.append(('LookupBase()', attempt(lambda: type(LookupBase()).__name__)))
    out.append(('LookupBase().changed(None)', attempt(lambda: LookupBase().changed(None))))
    class StrictOverride(LookupBase):
        # the documented override point, written without a default for the name
        def _uncached_lookup(self, required, provided, name):
            return ('found', tuple(required), provided, name)
    so = StrictOverride()
    out.append(('override.lookup((1,), 2)', attempt(lambda: so.lookup((1,), 2))))
    out.append(('override.lookup((1,), 2, "n")', attempt(lambda: so.lookup((1,), 2, 'n'))))
    out.append(('override.lookup1(1, 2)', attempt(lambda: so.lookup1(1, 2))))
    out.append(('override.lookup((1, 3), 2)', attempt(lambda: so.lookup((1, 3), 2))))
    out.append(('LookupBase().changed()', attempt(lambda: LookupBase().changed())))
    out.append(('LookupBase().changed(ignored=1)', attempt(lambda: LookupBase().changed(ignored=1))))
    out.append(('LookupBase().changed(1, 2)', attempt(lambda: LookupBase().changed(1, 2))))
    out.append(('LookupBase().changed(bogus=1)', attempt(lambda: LookupBase().changed(bogus=1))))
    return out


PROGRAMS = {'constructors': prog_constructors, 'chain': prog_chain, 'spec_queries': prog_spec_queries, 'compare': prog_compare, 'declarations': prog_declarations,
            'adapt': prog_adapt, 'registry': prog_registry}


def trace(name):
    return [[k, v if isinstance(v, str) else json.dumps(v)] for k, v in PROGRAMS[name]()]


def other_mode_trace(name):
    import zope.interface
    tree = os.path.dirname(os.path.dirname(os.path.dirname(zope.interface.__file__)))
    env = dict(os.environ)
    pure = 'Py' in type(declarations.providedBy).__name__ or type(declarations.providedBy).__name__ == 'function'
    env.pop('PURE_PYTHON', None)
    if not pure:
        env['PURE_PYTHON'] = '1'
    code = ("import sys, json\nimport zope\nzope.__path__.insert(0, %r)\nsys.path.insert(0, %r)\n"
            "from falsify import C10\nprint(json.dumps(C10.trace(%r)))\n" % (
                os.path.join(tree, 'zope'), os.path.dirname(os.path.dirname(os.path.abspath(__file__))), name))
    p = subprocess.run([sys.executable, '-c', code], capture_output=True, text=True, env=env)
    return json.loads(p.stdout.strip().splitlines()[-1])


def replay(name, step=None):
    mine = trace(name)
    theirs = other_mode_trace(name)
    diffs = [(a, b) for a, b in zip(mine, theirs) if a != b]
    for a, b in diffs[:8]:
        print('differs: %s: this implementation %s, the other %s' % (a[0], a[1], b[1]))
    sys.exit(1 if diffs or len(mine) != len(theirs) else 0)


def run(ctx):
    ctx.rule = ('six generated API programs (registry chains 3-4 deep with a mutation at every level incl. the root-most registry, rebuild and re-basing, leaf caches warm; specification queries, comparison/hash, declaration queries and descriptors, '
                'adaptation calls, registry lookups incl. cached answers and bare LookupBase subclasses) over a pool of ~33 odd '
                'argument values (unhashable, raising __hash__/__eq__/__name__/__provides__/__providedBy__/__class__, None, foreign, '
                'super, builtins); every step records the value shape or the exception type; the check compares the traces of the '
                'two implementations; distinct = steps')
    ctx.bounds = 'fixed programs; argument pool of 33 values'
    ctx.traces = {}
    for name in PROGRAMS:
        t = trace(name)
        ctx.traces[name] = t
        ctx.evaluations += len(t)
        ctx.distinct.update((name, k) for k, _ in t)
    ctx.sample({'program': 'spec_queries', 'step': ctx.traces['spec_queries'][3]})
