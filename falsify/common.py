"""Small-scope generators of real zope.interface objects, shared by the bounded checks."""
import itertools

from zope.interface import Interface
from zope.interface.interface import InterfaceClass

_uid = itertools.count()


def uname(prefix='I'):
    return '%s%d' % (prefix, next(_uid))


def base_choices(k, max_bases):
    """All ordered base tuples for node k over earlier nodes 0..k-1 (plus the empty tuple)."""
    out = [()]
    for n in range(1, min(max_bases, k) + 1):
        out.extend(itertools.permutations(range(k), n))
    return out


def all_shapes(n, max_bases=2):
    """All ordered DAG shapes with n nodes: tuple of base-index tuples."""
    def rec(k, acc):
        if k == n:
            yield tuple(acc)
            return
        for bs in base_choices(k, max_bases):
            yield from rec(k + 1, acc + [bs])
    yield from rec(0, [])


def random_shape(rnd, n, max_bases=3, p_root=0.1):
    shape = []
    for k in range(n):
        nb = rnd.randint(0, min(max_bases, k))
        shape.append(tuple(rnd.sample(range(k), nb)))
    return tuple(shape)


def build_interfaces(shape, attrs=None, prefix='I', explicit_root=()):
    """Create real InterfaceClass objects for a shape; names are globally unique."""
    ifs = []
    for k, bs in enumerate(shape):
        bases = tuple(ifs[b] for b in bs)
        if k in explicit_root:
            bases = bases + (Interface,)
        ifs.append(InterfaceClass(uname(prefix), bases or (Interface,), dict((attrs or {}).get(k, {}))))
    return ifs


def ancestors(spec):
    seen = []
    stack = [spec]
    while stack:
        x = stack.pop()
        if any(x is y for y in seen):
            continue
        seen.append(x)
        stack.extend(x.__bases__)
    return seen


def is_linearization(sro, spec):
    """The C03 sentence: starts with spec, each ancestor once, everything before its bases, Interface last."""
    anc = ancestors(spec)
    ids = [id(x) for x in sro]
    if not sro or sro[0] is not spec:
        return 'does not start with the specification'
    if len(set(ids)) != len(ids):
        return 'duplicates'
    if set(ids) != set(id(a) for a in anc) | {id(Interface)}:
        return 'members are not exactly the ancestors plus Interface'
    if sro[-1] is not Interface:
        return 'Interface is not last'
    pos = {id(x): i for i, x in enumerate(sro)}
    for x in sro:
        if x is Interface:
            continue
        for b in x.__bases__:
            if pos[id(x)] >= pos[id(b)]:
                return '%r is not before its base %r' % (x, b)
    return None


def mirror_mro(spec):
    """Python's own MRO of the identically shaped class hierarchy (Interface <-> object); None if no C3."""
    memo = {}

    def mk(s):
        if s is Interface:
            return object
        if id(s) in memo:
            if memo[id(s)] is None:
                raise TypeError
            return memo[id(s)][1]
        bs = tuple(mk(b) for b in s.__bases__) or (object,)
        try:
            c = type('M', bs, {})
        except TypeError:
            memo[id(s)] = None
            raise
        memo[id(s)] = (s, c)
        return c
    try:
        m = mk(spec)
    except TypeError:
        return None
    inv = {c: s for (s, c) in [v for v in memo.values() if v]}
    inv[object] = Interface
    return tuple(inv[c] for c in m.__mro__)


def names(xs):
    return [getattr(x, '__name__', repr(x)) for x in xs]
