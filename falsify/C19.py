"""C19 bounded check: super() proxies on random class DAGs (diamonds, undeclared mixins, *only* declarations),
every (C, ob) along every MRO, declaration histories before and after the first super query."""
import sys

from zope.interface import (Interface, implementedBy, providedBy, classImplements, classImplementsOnly,
                            directlyProvides)
from zope.interface.interface import InterfaceClass
from zope.interface.adapter import AdapterRegistry

from falsify import common


def build(spec):
    nif, cls_spec, hist = spec
    ifs = [InterfaceClass(common.uname('J')) for _ in range(nif)]
    classes = []
    for bases, decl, only in cls_spec:
        bs = tuple(classes[b] for b in bases if b < len(classes)) or (object,)
        try:
            c = type(common.uname('K'), bs, {})
        except TypeError:
            continue
        if only:
            classImplementsOnly(c, *[ifs[i] for i in decl])
        elif decl:
            classImplements(c, *[ifs[i] for i in decl])
        classes.append(c)
    return ifs, classes


def check(ifs, classes, tag):
    bad = []
    n = 0
    for T in classes:
        ob = T()
        directlyProvides(ob, ifs[-1])
        for C in T.__mro__[:-1]:
            n += 1
            rest = T.__mro__[T.__mro__.index(C) + 1:]
            exp = {id(Interface)}
            for c in rest:
                exp |= {id(i) for i in implementedBy(c).flattened()}
            s = super(C, ob)
            for fn, what in ((providedBy, 'providedBy'), (implementedBy, 'implementedBy')):
                got = {id(i) for i in fn(s).flattened()}
                if got != exp:
                    names = lambda ids_: sorted(i.__name__ for i in ifs + [Interface] if id(i) in ids_)
                    bad.append((what, '%s: %s(super(%s, instance of %s)) reports %s, the classes after it in the MRO implement %s' % (
                        tag, what, C.__name__, T.__name__, names(got), names(exp))))
            for i in ifs:
                if i.providedBy(s) is not (id(i) in exp):
                    bad.append(('I.providedBy', '%s: %s.providedBy(super(%s, ob)) is %r' % (tag, i.__name__, C.__name__, i.providedBy(s))))
            reg = AdapterRegistry()
            for k, i in enumerate(ifs):
                reg.register((i,), ifs[0], '', (lambda k: (lambda o: (k, o)))(k))
            r = reg.queryAdapter(s, ifs[0])
            best = reg.lookup((providedBy(s),), ifs[0])
            if (r is None) != (best is None) or (r is not None and (r[1] is not ob or best(None)[0] != r[0])):
                bad.append(('adaptation', '%s: adapting super(%s, ob) did not select the adapter for the remaining MRO / did not pass the underlying object' % (tag, C.__name__)))
            if bad:
                return bad, n
    return bad, n


def cold_check(ifs, classes):
    """the FIRST question ever asked about an instance of each class is a super query on one of its base classes (a
    cooperative method adapting super()): nothing has computed the class's own specification yet, while the base classes
    (visited earlier) have answered super queries of their own"""
    bad = []
    n = 0
    names = lambda ids_: sorted(i.__name__ for i in ifs + [Interface] if id(i) in ids_)
    for T in classes:
        ob = T()
        for C in list(T.__mro__[1:-1]) + [T]:
            n += 1
            rest = T.__mro__[T.__mro__.index(C) + 1:]
            exp = {id(Interface)}
            for c in rest:
                exp |= {id(i) for i in implementedBy(c).flattened()}
            got = {id(i) for i in providedBy(super(C, ob)).flattened()}
            if got != exp:
                bad.append(('providedBy-cold', 'first query about an instance of %s: providedBy(super(%s, ob)) reports %s, the classes after it in the MRO implement %s' % (
                    T.__name__, C.__name__, names(got), names(exp))))
                return bad, n
    return bad, n


def play(spec):
    ifs, classes = build(spec)
    if not classes:
        return [], 0
    bad, n = cold_check(ifs, classes)
    if bad:
        return bad, n
    bad, n2 = check(ifs, classes, 'fresh')
    n += n2
    for si, (ci, ii, only) in enumerate(spec[2]):
        if bad:
            break
        c = classes[ci % len(classes)]
        (classImplementsOnly if only else classImplements)(c, ifs[ii % len(ifs)])
        b2, n2 = check(ifs, classes, 'after declaration change %d on %s' % (si, c.__name__))
        bad += b2
        n += n2
    return bad, n


def random_spec(rnd):
    nif = 4
    cls = []
    for k in range(rnd.randint(2, 5)):
        bases = tuple(rnd.sample(range(k), rnd.randint(0, min(2, k))))
        r = rnd.random()
        decl = tuple(rnd.sample(range(nif - 1), rnd.randint(0, 2))) if r < 0.7 else ()
        cls.append((bases, decl, r < 0.15))
    hist = tuple((rnd.randrange(5), rnd.randrange(nif - 1), rnd.random() < 0.3) for _ in range(rnd.randint(0, 3)))
    return (nif, tuple(cls), hist)


def replay(spec):
    bad, _ = play(spec)
    for sig, what in bad[:6]:
        print('violated:', sig, what)
    sys.exit(1 if bad else 0)


def run(ctx):
    ctx.rule = ('random class DAGs (<=5 classes, <=2 bases, undeclared mixins, *only* declarations), every super(C, ob) along '
                'every MRO (first of all as the very first question asked about an instance of each class), providedBy/implementedBy/I.providedBy and registry adaptation against the union over the remaining '
                'MRO computed independently, repeated after <=3 later declaration changes (cache warm); distinct = (DAG, history)')
    ctx.bounds = 'classes<=5, history<=3'
    trials = 250 if ctx.tier == 'quick' else 4000
    for t in range(trials):
        if ctx.out_of_time() or ctx.too_many():
            return
        spec = random_spec(ctx.rnd)
        bad, n = play(spec)
        ctx.evaluations += n
        ctx.distinct.add(spec)
        if t == 3:
            ctx.sample({'classes': spec[1], 'history': spec[2]})
        for sig, what in bad[:1]:
            ctx.violation(sig, what, 'from falsify.C19 import replay\nreplay(%r)\n' % (spec,))
