"""C03 bounded check: resolution orders on all small ordered DAGs, with re-basing histories.

Executable contracts (oracles): linearization facts of the statement; equality with CPython's MRO of the
mirrored class hierarchy whenever that exists; strict mode raises / is_consistent is False iff it does not.
"""
import itertools
import sys

from zope.interface import Interface, implementedBy, classImplements, ro
from zope.interface.interface import InterfaceClass

from falsify import common

KNOWN_IS_CONSISTENT_DIRECT = 'C03-is_consistent-direct'


def check_spec(s, where):
    """Return list of (sig, what, known) for one specification."""
    bad = []
    sro = tuple(s.__sro__)
    lin = common.is_linearization(sro, s)
    if lin:
        bad.append(('linearization', '__sro__ of %s %s: %s (%s)' % (s.__name__, common.names(sro), lin, where), None))
    iro = tuple(x for x in sro if isinstance(x, InterfaceClass))
    if tuple(s.__iro__) != iro:
        bad.append(('iro', '__iro__ of %s is not __sro__ restricted to interfaces (%s)' % (s.__name__, where), None))
    exp = common.mirror_mro(s)
    if exp is not None and exp != sro:
        bad.append(('c3-equality', '__sro__ of %s is %s but C3 (Python MRO of the same shape) is %s (%s)' % (
            s.__name__, common.names(sro), common.names(exp), where), None))
    try:
        r = ro.ro(s, strict=True)
        strict_ok = True
    except ro.InconsistentResolutionOrderError:
        strict_ok = False
    if strict_ok != (exp is not None):
        bad.append(('strict', 'strict mode %s for %s although C3 %s (%s)' % (
            'accepted' if strict_ok else 'raised', s.__name__, 'exists' if exp is not None else 'does not exist', where), None))
    isc = ro.is_consistent(s)
    if isc != (exp is not None):
        # region of the recorded defect: the inconsistency is in the leaf's own merge, every base is consistent
        direct = exp is None and all(common.mirror_mro(b) is not None for b in s.__bases__)
        bad.append(('is_consistent', 'ro.is_consistent(%s) is %s although C3 %s (%s)' % (
            s.__name__, isc, 'exists' if exp is not None else 'does not exist', where),
            KNOWN_IS_CONSISTENT_DIRECT if (direct and isc) else None))
    return bad


def run_case(shape, rebases=(), explicit_root=(), with_classes=False):
    ifs = common.build_interfaces(shape, explicit_root=explicit_root)
    specs = list(ifs)
    if with_classes:
        # a class hierarchy mirroring the first nodes, implementing the interfaces
        classes = []
        for k, bs in enumerate(shape[:3]):
            try:
                c = type(common.uname('K'), tuple(classes[b] for b in bs if b < len(classes)) or (object,), {})
            except TypeError:
                continue
            classImplements(c, ifs[k])
            classes.append(c)
        specs += [implementedBy(c) for c in classes]
    bad = []
    for s in specs:
        bad += check_spec(s, 'fresh')
    for step, (k, newbases) in enumerate(rebases):
        ifs[k].__bases__ = tuple(ifs[b] for b in newbases) or (Interface,)
        for s in specs:
            bad += check_spec(s, 'after re-basing step %d' % step)
    return bad


def twin_case(variant=0):
    """a base is replaced by a RE-CREATED interface (same name and module, another object: a reloaded schema), then the new
    object is re-based: every dependent must follow the object that is its base now"""
    n = common.uname('ITwin')
    ITitled = InterfaceClass(common.uname('ITitled'), (Interface,), {})
    IAud = InterfaceClass(common.uname('IAud'), (Interface,), {})
    item1 = InterfaceClass(n, (ITitled,), {}, __module__='falsify.twins')
    doc = InterfaceClass(common.uname('IDoc'), (item1,) if variant != 2 else (item1, IAud), {})
    sub = InterfaceClass(common.uname('ISubDoc'), (doc,), {})
    K = type(common.uname('KDoc'), (object,), {})
    classImplements(K, doc)
    specs = [doc, sub, implementedBy(K)]
    bad = []
    for s in specs:
        bad += check_spec(s, 'twin history: fresh')
    item2 = InterfaceClass(n, (ITitled,), {}, __module__='falsify.twins')
    doc.__bases__ = tuple(item2 if b is item1 else b for b in doc.__bases__)
    for s in specs + [item2]:
        bad += check_spec(s, 'twin history: base replaced by a re-created interface of the same name')
    item2.__bases__ = (ITitled, IAud) if variant != 2 else (IAud, ITitled)
    for s in specs + [item2]:
        bad += check_spec(s, 'twin history: the re-created interface re-based afterwards')
    if variant == 1:
        item1.__bases__ = (Interface,)          # the replaced object must no longer matter
        for s in specs:
            bad += check_spec(s, 'twin history: the replaced interface re-based afterwards')
    return bad


def replay(shape, rebases=(), explicit_root=(), with_classes=False):
    bad = run_case(shape, rebases, explicit_root, with_classes) if shape != 'twin' else twin_case(rebases)
    for sig, what, known in bad:
        print('violated:', sig, what)
    sys.exit(1 if bad else 0)


def script(shape, rebases, explicit_root, with_classes):
    return 'from falsify.C03 import replay\nreplay(%r, %r, %r, %r)\n' % (shape, rebases, explicit_root, with_classes)


def acyclic_rebases(shape):
    """All single re-basings node k -> new ordered bases among earlier nodes (keeps the DAG acyclic)."""
    for k in range(1, len(shape)):
        for nb in common.base_choices(k, 2):
            if nb != shape[k]:
                yield (k, nb)


def run(ctx):
    nmax = 4 if ctx.tier == 'quick' else 5
    ctx.rule = ('all ordered DAG shapes (<=2 ordered bases per node) up to %d interfaces, each checked fresh and after every '
                'single re-basing (quick: shapes <=3 for re-basing), plus seeded random shapes up to 7 nodes with <=3 bases, '
                'explicit Interface bases and class specifications; 8-node diamonds whose apex is re-based to every other ordered base tuple over three roots; histories in which a base is replaced by a re-created interface of the same name and module; distinct = distinct (shape, history)' % nmax)
    ctx.bounds = 'nodes<=%d exhaustive, random<=7' % nmax
    for n in range(1, nmax + 1):
        for shape in common.all_shapes(n, 2):
            if ctx.out_of_time() or ctx.too_many():
                return
            ctx.case(('s', shape))
            for sig, what, known in run_case(shape):
                ctx.violation(sig + ':' + repr(shape) if known is None else known, what, script(shape, (), (), False), known)
            if n <= (3 if ctx.tier == 'quick' else 4):
                for rb in acyclic_rebases(shape):
                    ctx.case(('r', shape, rb))
                    for sig, what, known in run_case(shape, (rb,)):
                        ctx.violation(sig + ':' + repr((shape, rb)) if known is None else known, what,
                                      script(shape, (rb,), (), False), known)
    # diamonds whose APEX is re-based (a base dropped, added or reordered): the bottom is reached along two paths, so an
    # implementation that brings each dependent up to date once per notification round recomputes it against a stale sibling
    for init in common.base_choices(3, 2):
        for nb1 in common.base_choices(3, 2):
            if nb1 == init or ctx.out_of_time() or ctx.too_many():
                continue
            shape = ((), (), (), init, (3,), (3,), (4, 5), (6,))
            seconds = [()] if ctx.tier == 'quick' else [nb2 for nb2 in common.base_choices(3, 2) if nb2 != nb1]
            for nb2 in seconds:
                rbs = ((3, nb1),) if ctx.tier == 'quick' else ((3, nb1), (3, nb2))
                for wc in (False, True):
                    ctx.case(('diamond', init, rbs, wc))
                    for sig, what, known in run_case(shape, rbs, (), wc):
                        ctx.violation(sig + ':diamond' + repr((init, rbs, wc)) if known is None else known, what, script(shape, rbs, (), wc), known)
    for variant in (0, 1, 2):
        ctx.case(('twin', variant))
        for sig, what, known in twin_case(variant):
            ctx.violation(sig + ':twin%d' % variant, what, 'from falsify.C03 import replay\nreplay("twin", %d)\n' % variant, known)
    ctx.sample({'shape': [list(b) for b in shape], 'checked': 'sro/iro/strict/is_consistent fresh and after re-basing'})
    trials = 300 if ctx.tier == 'quick' else 4000
    for t in range(trials):
        if ctx.out_of_time() or ctx.too_many():
            return
        n = ctx.rnd.randint(3, 7)
        shape = common.random_shape(ctx.rnd, n, 3)
        er = tuple(k for k in range(n) if ctx.rnd.random() < 0.1)
        rbs = []
        cur = list(shape)
        for _ in range(ctx.rnd.randint(0, 2)):
            k = ctx.rnd.randint(1, n - 1)
            nb = tuple(ctx.rnd.sample(range(k), ctx.rnd.randint(0, min(3, k))))
            rbs.append((k, nb))
        wc = ctx.rnd.random() < 0.3
        ctx.case(('x', shape, tuple(rbs), er, wc))
        for sig, what, known in run_case(shape, tuple(rbs), er, wc):
            ctx.violation(sig + ':' + repr((shape, rbs, er, wc)) if known is None else known, what,
                          script(shape, tuple(rbs), er, wc), known)
