"""C14 bounded check: the full product of __conform__ behaviours x provided x hook lists x alternate x custom
__adapt__ against the decision list of the statement (result AND which steps ran), both implementations;
plus registry.adapter_hook installed as a hook equals queryAdapter."""
import itertools
import sys

from zope.interface import Interface, implementer, interfacemethod
from zope.interface.interface import adapter_hooks
from zope.interface.adapter import AdapterRegistry


class E1(Exception):
    pass


CONFORM = ['absent', 'attrerr', 'othererr', 'none', 'value', 'falsy', 'raises', 'raisesAttributeError', 'raisesTypeError']
HOOK = ['none', 'value', 'falsy', 'raises']
CUSTOM = ['no', 'none', 'value', 'raises']
FALSY = []          # a falsy, non-None adapter is an adapter


WHERE = ['class', 'instance', 'getattr', 'inherited', 'slot']    # where the callable __conform__ is found by attribute lookup
CALLABLE = ['none', 'value', 'falsy', 'raises', 'raisesAttributeError', 'raisesTypeError']


def one(conform, provided, hooks, alt, custom, where='class', custom_where='own'):
    log = []
    if custom == 'no':
        class IF(Interface):
            pass
    else:
        class IF(Interface):
            @interfacemethod
            def __adapt__(self, obj):
                log.append('custom')
                if custom == 'raises':
                    raise E1('custom')
                return None if custom == 'none' else 'custom-value'
        if custom_where == 'inherited':
            # the custom __adapt__ comes from a base interface
            class IF(IF):
                pass
        elif custom_where == 'inherited+other':
            # ... and the interface defines another interface method of its own
            class IF(IF):
                @interfacemethod
                def helper(self):
                    return 1

    def conform_fn(iface):
        log.append('conform')
        if iface is not IF:
            log.append('wrong-arguments')
        if conform == 'raises':
            raise E1('conform')
        if conform == 'raisesAttributeError':
            raise AttributeError('inside conform')
        if conform == 'raisesTypeError':
            raise TypeError('conform')
        return None if conform == 'none' else (FALSY if conform == 'falsy' else 'conform-value')

    class Base:
        if where == 'inherited':
            def __conform__(self, iface):
                return conform_fn(iface)

    class O(Base):
        if where == 'slot':
            __slots__ = ('__conform__',)
        if where == 'getattr':
            def __getattr__(self, name):
                if name == '__conform__':
                    return conform_fn
                raise AttributeError(name)
        if where != 'class':
            pass
        elif conform == 'attrerr':
            @property
            def __conform__(self):
                raise AttributeError('x')
        elif conform == 'othererr':
            @property
            def __conform__(self):
                raise E1('attr')
        elif conform != 'absent':
            def __conform__(self, iface):
                log.append('conform')
                if conform == 'raises':
                    raise E1('conform')
                if conform == 'raisesAttributeError':
                    raise AttributeError('inside conform')
                if conform == 'raisesTypeError':
                    raise TypeError('conform')
                return None if conform == 'none' else (FALSY if conform == 'falsy' else 'conform-value')
    if provided:
        O = implementer(IF)(O)
    o = O()
    if where in ('instance', 'slot'):
        o.__conform__ = conform_fn

    def mk(k, kind):
        def h(iface, obj):
            log.append('h%d' % k)
            if iface is not IF or obj is not o:
                log.append('wrong-arguments')
            if kind == 'raises':
                raise E1('hook%d' % k)
            return None if kind == 'none' else (FALSY if kind == 'falsy' else 'hook%d-value' % k)
        return h
    adapter_hooks[:] = [mk(k, kind) for k, kind in enumerate(hooks)]

    def spec():
        elog = []
        if conform == 'othererr':
            return ('exc', 'attr'), elog
        if conform not in ('absent', 'attrerr'):
            elog.append('conform')
            if conform == 'raises':
                return ('exc', 'conform'), elog
            if conform == 'raisesAttributeError':
                return ('exc', 'AttributeError'), elog
            if conform == 'raisesTypeError':
                return ('exc', 'TypeError'), elog
            if conform == 'value':
                return ('val', 'conform-value'), elog
            if conform == 'falsy':
                return ('falsy',), elog
        if custom != 'no':
            elog.append('custom')
            if custom == 'raises':
                return ('exc', 'custom'), elog
            if custom == 'value':
                return ('val', 'custom-value'), elog
        else:
            if provided:
                return ('self',), elog
            for k, kind in enumerate(hooks):
                elog.append('h%d' % k)
                if kind == 'raises':
                    return ('exc', 'hook%d' % k), elog
                if kind == 'value':
                    return ('val', 'hook%d-value' % k), elog
                if kind == 'falsy':
                    return ('falsy',), elog
        if alt:
            return ('val', 'ALT'), elog
        return ('exc', 'TypeError'), elog
    try:
        try:
            r = IF(o, 'ALT') if alt else IF(o)
            got = ('self',) if r is o else (('falsy',) if r is FALSY else ('val', r))
        except E1 as e:
            got = ('exc', e.args[0])
        except AttributeError:
            got = ('exc', 'AttributeError')
        except TypeError as e:
            got = ('exc', 'TypeError')
            if conform != 'raisesTypeError' and e.args[:1] != ('Could not adapt',):
                got = ('exc', 'TypeError-wrong-args')
            elif conform != 'raisesTypeError' and (e.args[1] is not o or e.args[2] is not IF):
                got = ('exc', 'TypeError-wrong-args')
    finally:
        adapter_hooks[:] = []
    exp, elog = spec()
    if got != exp or log != elog:
        return [('precedence', 'conform=%s (found through: %s) provided=%s hooks=%r alternate=%s custom __adapt__=%s: result %r after steps %r; '
                 'the statement gives %r after steps %r' % (conform, where, provided, hooks, alt, custom + ('' if custom_where == 'own' else ' (%s)' % custom_where), got, log, exp, elog))]
    return []


def sequences():
    """adaptation must not depend on earlier adaptations through the same interface: objects of ONE class, some without
    __conform__, some that acquire one later (instance attribute, __getattr__ switched on, class attribute added)"""
    bad = []
    for how in ('instance', 'class-later', 'getattr-switch', 'deleted-later'):
        class IF(Interface):
            pass
        calls = []

        def conform(iface, calls=calls):
            calls.append('conform')
            return 'conform-value'

        class O:
            enabled = False

            def __getattr__(self, name):
                if name == '__conform__' and how == 'getattr-switch' and O.enabled:
                    return conform
                raise AttributeError(name)
        a, b = O(), O()
        adapter_hooks[:] = []
        steps = []
        try:
            if how == 'deleted-later':
                O.__conform__ = lambda self, iface: conform(iface)
                steps.append(('first has __conform__', IF(a, 'ALT'), 'conform-value'))
                del O.__conform__
                steps.append(('class attribute deleted', IF(b, 'ALT'), 'ALT'))
                steps.append(('first again', IF(a, 'ALT'), 'ALT'))
            else:
                steps.append(('no __conform__ yet', IF(a, 'ALT'), 'ALT'))
                steps.append(('again', IF(a, 'ALT'), 'ALT'))
                if how == 'instance':
                    b.__conform__ = conform
                elif how == 'class-later':
                    O.__conform__ = lambda self, iface: conform(iface)
                else:
                    O.enabled = True
                steps.append(('same class, now with __conform__ (%s)' % how, IF(b, 'ALT'), 'conform-value'))
                steps.append(('and again', IF(b, 'ALT'), 'conform-value'))
                if how == 'instance':
                    steps.append(('the first object still has none', IF(a, 'ALT'), 'ALT'))
        except Exception as e:
            bad.append(('sequence', 'adaptation sequence (%s) raised %r after %r' % (how, e, [s_[0] for s_ in steps])))
            continue
        for what, got, exp in steps:
            if got != exp:
                bad.append(('sequence', 'adaptation sequence (%s), step %r: result %r, the statement gives %r (earlier steps: %r)' % (
                    how, what, got, exp, [s_[0] for s_ in steps[:steps.index((what, got, exp))]])))
                break
    return bad


def registry_hook():
    bad = []

    class IA(Interface):
        pass

    class IB(Interface):
        pass

    @implementer(IA)
    class K:
        pass
    reg = AdapterRegistry()
    reg.register([IA], IB, '', lambda ob: ('adapted', ob))
    adapter_hooks[:] = [reg.adapter_hook]
    try:
        o = K()
        if IB(o) != reg.queryAdapter(o, IB) or IB(o)[1] is not o:
            bad.append(('registry-hook', 'I(obj) with registry.adapter_hook installed differs from registry.queryAdapter(obj, I)'))
        if IB(object(), 'alt') != 'alt' or reg.queryAdapter(object(), IB, default='alt') != 'alt':
            bad.append(('registry-hook-default', 'alternate not returned when the registry has no adapter'))
    finally:
        adapter_hooks[:] = []
    return bad


def reentrant():
    """hooks that themselves adapt something (nested adaptation reaching the hook stage) before declining: the remaining hooks
    of the OUTER call must still run as hook(I, obj) with the outer arguments, in list order"""
    bad = []

    class IA(Interface):
        pass

    class IJ(Interface):
        pass

    class O:
        pass
    try:
        for nested in ('alternate', 'hook-value', 'type-error', 'twice'):
            log = []
            inner = O()

            def h1(iface, obj):
                log.append(('h1', iface, obj))
                if iface is IA:
                    for _ in range(2 if nested == 'twice' else 1):
                        try:
                            IJ(inner) if nested == 'type-error' else IJ(inner, 'alt')
                        except TypeError:
                            pass
                return None

            def h2(iface, obj):
                log.append(('h2', iface, obj))
                if iface is IJ:
                    return 'j-value' if nested == 'hook-value' else None
                return 'h2-value'

            def h3(iface, obj):
                log.append(('h3', iface, obj))
                return None
            adapter_hooks[:] = [h1, h2, h3]
            o = O()
            res = IA(o, 'ALT')
            outer = [e for e in log if e[1] is not IJ]
            if res != 'h2-value' or len(outer) != 2 or outer[0] != ('h1', IA, o) or outer[1][0] != 'h2' or outer[1][1] is not IA or outer[1][2] is not o:
                bad.append(('reentrant-hooks:' + nested, 'outer adaptation with a first hook that adapts something else (%s) and declines: result %r, outer hook '
                            'calls %r; expected h1(IA, obj) then h2(IA, obj) -> \'h2-value\'' % (nested, res, [(e[0], getattr(e[1], '__name__', e[1]), type(e[2]).__name__) for e in outer])))
            if any(e[1] is IJ and e[2] is not inner for e in log):
                bad.append(('reentrant-hooks-inner:' + nested, 'a hook of the nested adaptation was not called with the nested arguments'))
        # registries as hooks: the first registry's factory adapts something else and declines; the second has an adapter
        r1, r2 = AdapterRegistry(), AdapterRegistry()

        @implementer(IA)
        class K:
            pass

        class IB(Interface):
            pass

        def declining(ob):
            IJ(O(), None)
            return None
        r1.register([IA], IB, '', declining)
        r2.register([IA], IB, '', lambda ob: ('second', ob))
        adapter_hooks[:] = [r1.adapter_hook, r2.adapter_hook]
        k = K()
        try:
            got = IB(k)
        except TypeError as e:
            got = 'TypeError%r' % (e.args[:1],)
        if got != r2.queryAdapter(k, IB):
            bad.append(('reentrant-registry-hooks', 'I(obj) with two registries installed (the first one\'s factory adapts something else and returns None) is %r, '
                        'second.queryAdapter(obj, I) is %r' % (got, r2.queryAdapter(k, IB))))
    finally:
        adapter_hooks[:] = []
    return bad


def replay(*args):
    if args == ('reentrant',):
        bad = reentrant()
        for sig, what in bad:
            print('violated:', sig, what)
        sys.exit(1 if bad else 0)
    bad = (sequences() if args == ('sequences',) else one(*args)) if args else registry_hook()
    for sig, what in bad:
        print('violated:', sig, what)
    sys.exit(1 if bad else 0)


def run(ctx):
    ctx.rule = ('hooks that re-enter adaptation before declining (nested calls reaching the hook stage; registries as hooks); adaptation sequences through one interface over objects of one class that acquire/lose __conform__ between calls; full product: __conform__ in %r x provided x hook lists of length <=2 over %r x alternate x custom __adapt__ in %r; '
                'custom __adapt__ defined on the interface itself or inherited from a base interface (with/without other interface methods); __conform__ found on the class, in the instance dictionary, in a slot, through __getattr__ or on a base class; '
                'result/exception and the exact sequence of executed steps compared with the decision list of the statement; '
                'distinct = points of the product' % (CONFORM, HOOK, CUSTOM))
    ctx.bounds = 'hook list length <= 2 (quick) / 3 (thorough)'
    maxh = 2 if ctx.tier == 'quick' else 3
    hook_lists = list(itertools.chain.from_iterable(itertools.product(HOOK, repeat=k) for k in range(maxh + 1)))
    for point in itertools.product(CONFORM, [False, True], hook_lists, [False, True], CUSTOM):
        if ctx.too_many():
            return
        ctx.case(point)
        for sig, what in one(*point):
            ctx.violation(sig + repr(point), what, 'from falsify.C14 import replay\nreplay(*%r)\n' % (point,))
    # a custom __adapt__ inherited from a base interface (with and without further interface methods of its own)
    for point in itertools.product(['absent', 'none', 'value'], [False, True], short_hooks_ := [h for h in hook_lists if len(h) <= 1], [False, True],
                                   CUSTOM[1:], ['class'], ['inherited', 'inherited+other']):
        if ctx.too_many():
            return
        ctx.case(point)
        for sig, what in one(*point):
            ctx.violation(sig + repr(point), what, 'from falsify.C14 import replay\nreplay(*%r)\n' % (point,))
    # the same decision list when __conform__ is found in the instance dictionary, a slot, through __getattr__ or a base class
    short_hooks = [h for h in hook_lists if len(h) <= 1]
    for point in itertools.product(CALLABLE, [False, True], short_hooks, [False, True], CUSTOM, WHERE[1:]):
        if ctx.too_many():
            return
        ctx.case(point)
        for sig, what in one(*point):
            ctx.violation(sig + repr(point), what, 'from falsify.C14 import replay\nreplay(*%r)\n' % (point,))
    ctx.sample({'conform': 'none', 'provided': False, 'hooks': ['none', 'raises'], 'alternate': True, 'custom': 'no'})
    ctx.case('sequences')
    for sig, what in sequences():
        ctx.violation(sig, what, 'from falsify.C14 import replay\nreplay("sequences")\n')
    ctx.case('reentrant')
    for sig, what in reentrant():
        ctx.violation(sig, what, 'from falsify.C14 import replay\nreplay("reentrant")\n')
    ctx.case('registry-hook')
    for sig, what in registry_hook():
        ctx.violation(sig, what, 'from falsify.C14 import replay\nreplay()\n')
