"""C13 bounded check: real pickle round trips (all protocols) of interfaces, class specifications of every
declaration shape, class and instance provides-declarations, and objects carrying declarations."""
import pickle
import sys

from zope.interface import (Interface, implementedBy, providedBy, directlyProvides, alsoProvides, directlyProvidedBy,
                            noLongerProvides)

from falsify import c13_fixtures as fx

MARKERS = [b'UNIQUE-DOC-MARKER', b'UNIQUE-ATTR-MARKER', b'UNIQUE-METHOD-MARKER', b'marker_attribute_xyz', b'marker_method_xyz']


def ifset(spec):
    return sorted((i.__module__, i.__name__) for i in spec.flattened())


def roundtrip(x, proto):
    data = pickle.dumps(x, proto)
    for m in MARKERS:
        if m in data:
            raise AssertionError('definition text %r stored in the pickle' % m)
    return pickle.loads(data)


def run_checks(protos):
    bad = []
    n = 0
    for proto in protos:
        for I in fx.INTERFACES:
            n += 1
            try:
                r = roundtrip(I, proto)
            except Exception as e:
                bad.append(('interface', 'pickling %r (protocol %d) failed: %r' % (I, proto, e)))
                continue
            if r is not I:
                bad.append(('interface', '%r does not unpickle to the identical object (protocol %d)' % (I, proto)))
        for cls in fx.CLASSES:
            n += 1
            s = implementedBy(cls)
            try:
                r = roundtrip(s, proto)
            except Exception as e:
                bad.append(('implements', 'pickling implementedBy(%s) failed: %r' % (cls.__name__, e)))
                continue
            if r is not s:
                bad.append(('implements', 'implementedBy(%s) (declared %s) unpickles to %r providing %r instead of the identical '
                            'specification providing %r (protocol %d)' % (cls.__name__, 'with an *only* form' if s.inherit is None else 'normally',
                                                                        r, ifset(r), ifset(s), proto)))
            elif r != s or hash(r) != hash(s):
                bad.append(('implements-eq', 'unpickled class specification not equal/hash-equal'))
            # class provides-declaration
            cp = providedBy(cls)
            try:
                r = roundtrip(cp, proto)
                if ifset(r) != ifset(cp):
                    bad.append(('class-provides', 'providedBy(%s) unpickles to a declaration providing %r instead of %r' % (cls.__name__, ifset(r), ifset(cp))))
            except Exception as e:
                bad.append(('class-provides', 'pickling providedBy(%s) failed: %r' % (cls.__name__, e)))
            # instance declarations and objects carrying them
            for direct in ((), (fx.IMarker,), (fx.IC, fx.IMarker), (fx.IB,)):
                n += 1
                ob = cls()
                if direct:
                    directlyProvides(ob, *direct)
                p = providedBy(ob)
                try:
                    r = roundtrip(p, proto)
                    if ifset(r) != ifset(p):
                        bad.append(('provides', 'providedBy(instance of %s directly providing %s) unpickles to a declaration providing %r instead of %r' % (
                            cls.__name__, [i.__name__ for i in direct], ifset(r), ifset(p))))
                    elif not (r == p and hash(r) == hash(p)):
                        bad.append(('provides-eq', 'unpickled instance declaration not equal/hash-equal to the original'))
                    o2 = roundtrip(ob, proto)
                    if ifset(providedBy(o2)) != ifset(p) or ifset(directlyProvidedBy(o2)) != ifset(directlyProvidedBy(ob)):
                        bad.append(('object', 'an unpickled instance of %s provides %r instead of %r' % (cls.__name__, ifset(providedBy(o2)), ifset(p))))
                except Exception as e:
                    bad.append(('provides', 'pickling the declaration of an instance of %s failed: %r' % (cls.__name__, e)))
    # class-provided declarations with a history: declared, looked up through a registry (which subscribes to the
    # declaration), declared again -- the pickled form must describe the current declaration
    from zope.interface.adapter import AdapterRegistry
    for warm in (False, True):
        for how in ('also', 'directly', 'nolonger'):
            n += 1
            cls = type('Hist', (fx.Base,), {'__module__': fx.__name__})
            setattr(fx, 'Hist', cls)        # importable under its name, as pickling by reference requires
            directlyProvides(cls, fx.IMarker)
            if warm:
                reg = AdapterRegistry()
                reg.register([fx.IMarker], fx.IA, '', lambda o: ('adapter', o))
                reg.lookup((providedBy(cls),), fx.IA)
                reg.queryAdapter(cls, fx.IA)
            if how == 'also':
                alsoProvides(cls, fx.IC)
            elif how == 'directly':
                directlyProvides(cls, fx.IC)
            else:
                alsoProvides(cls, fx.IC)
                noLongerProvides(cls, fx.IMarker)
            for proto in (0, 2, pickle.HIGHEST_PROTOCOL):
                cp = providedBy(cls)
                r = roundtrip(cp, proto)
                if ifset(r) != ifset(cp):
                    bad.append(('class-provides-history', 'after %s (registry lookups before: %s) the class declaration provides %r but unpickles providing %r' % (how, warm, ifset(cp), ifset(r))))
            ob = fx.Adds()
            directlyProvides(ob, fx.IMarker)
            if warm:
                reg.lookup((providedBy(ob),), fx.IA)
            alsoProvides(ob, fx.IB)
            r = roundtrip(providedBy(ob), 2)
            if ifset(r) != ifset(providedBy(ob)):
                bad.append(('provides-history', 'instance declaration with history unpickles providing %r instead of %r' % (ifset(r), ifset(providedBy(ob)))))
    # an instance declaration made while the class implied one of its interfaces, the class (or its base) re-declared
    # afterwards: the copy must provide what the live declaration provides NOW
    from zope.interface import classImplements, classImplementsOnly
    for who in ('class', 'base'):
        for how in ('only', 'more'):
            n += 1
            hb = type('HistBase', (object,), {'__module__': fx.__name__})
            hc = type('HistChild', (hb,), {'__module__': fx.__name__})
            setattr(fx, 'HistBase', hb)
            setattr(fx, 'HistChild', hc)
            classImplements(hb if who == 'base' else hc, fx.IA)
            ob = hc()
            directlyProvides(ob, fx.IA, fx.IMarker)
            keep = providedBy(ob)
            if how == 'only':
                classImplementsOnly(hb if who == 'base' else hc, fx.IC)
            else:
                classImplements(hb if who == 'base' else hc, fx.IC)
            for proto in (0, 2, pickle.HIGHEST_PROTOCOL):
                p = providedBy(ob)
                r = roundtrip(p, proto)
                if ifset(r) != ifset(p):
                    bad.append(('provides-after-class-redeclaration', 'instance declaration made while the %s implied one of its interfaces, %s re-declared (%s): '
                                'the live declaration provides %r, its unpickled copy %r' % (who, who, how, ifset(p), ifset(r))))
                o2 = roundtrip(ob, proto)
                if ifset(providedBy(o2)) != ifset(providedBy(ob)):
                    bad.append(('object-after-class-redeclaration', 'object declared before its %s was re-declared (%s) provides %r, its unpickled copy %r' % (
                        who, how, ifset(providedBy(ob)), ifset(providedBy(o2)))))
    # declaration history before pickling: also/noLonger
    ob = fx.Adds()
    alsoProvides(ob, fx.IMarker)
    alsoProvides(ob, fx.IB)
    noLongerProvides(ob, fx.IMarker)
    o2 = roundtrip(ob, 2)
    if ifset(providedBy(o2)) != ifset(providedBy(ob)):
        bad.append(('object-history', 'object with a declaration history unpickles providing %r instead of %r' % (ifset(providedBy(o2)), ifset(providedBy(ob)))))
    return bad, n


def replay():
    bad, _ = run_checks(range(pickle.HIGHEST_PROTOCOL + 1))
    for sig, what in bad[:8]:
        print('violated:', sig, what)
    sys.exit(1 if bad else 0)


def run(ctx):
    ctx.rule = ('every fixture interface and class (declared: inherited only, added, only, subclass of only, first, '
                'class-provided, undeclared) x every pickle protocol x instances with 4 direct declarations; round trip through '
                'the real pickle; identity for interfaces/class specifications, same provided set, equality and hash for the '
                'rest; pickle bytes scanned for definition text; distinct = (object, protocol)')
    ctx.bounds = 'fixed fixture module, all protocols'
    bad, n = run_checks(range(pickle.HIGHEST_PROTOCOL + 1))
    ctx.evaluations = n
    ctx.distinct = set(range(n))
    ctx.sample({'object': 'implementedBy(Only)  [@implementer_only(IC) class Only(Base)]', 'protocols': list(range(pickle.HIGHEST_PROTOCOL + 1))})
    seen = set()
    for sig, what in bad:
        if sig not in seen:
            seen.add(sig)
            ctx.violation(sig, what, 'from falsify.C13 import replay\nreplay()\n')
