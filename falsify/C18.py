"""C18 bounded check: fromFunction/fromMethod/getSignatureInfo/getSignatureString against inspect.signature
on every signature with <= 2 parameters of each kind (positional-only, positional, defaulted, *args,
keyword-only, **kw), plain functions and bound methods, plus function attributes as tagged values."""
import inspect
import itertools
import sys

from zope.interface.interface import fromFunction, fromMethod


def make(posonly, pos, dflt, va, kwonly, kwdflt, kw, as_method=False, self_default=False):
    params = []
    names = []
    if as_method:
        params.append('self=None' if self_default else 'self')
    po = ['p%d' % i for i in range(posonly)]
    ps = ['a%d' % i for i in range(pos)]
    ds = ['d%d=%d' % (i, i + 10) for i in range(dflt)]
    allpos = po + ps
    if self_default:
        # every following positional needs a default too
        allpos = [x + '=0' for x in allpos]
    params += allpos[:posonly]
    if posonly:
        params.append('/')
    params += allpos[posonly:] + ds
    if va:
        params.append('*args')
    elif kwonly or kwdflt:
        params.append('*')
    params += ['k%d' % i for i in range(kwonly)] + ['kd%d=%d' % (i, i) for i in range(kwdflt)]
    if kw:
        params.append('**kw')
    src = 'def f(%s):\n    loc = 1\n    return loc\n' % ', '.join(params)
    ns = {}
    exec(src, ns)
    return ns['f'], src


def expected(func, drop_first):
    sig = inspect.signature(func)
    ps = list(sig.parameters.values())
    if drop_first:
        ps = ps[1:]
    positional = [p.name for p in ps if p.kind in (p.POSITIONAL_ONLY, p.POSITIONAL_OR_KEYWORD)]
    required = [p.name for p in ps if p.kind in (p.POSITIONAL_ONLY, p.POSITIONAL_OR_KEYWORD) and p.default is p.empty]
    optional = {p.name: p.default for p in ps if p.kind in (p.POSITIONAL_ONLY, p.POSITIONAL_OR_KEYWORD) and p.default is not p.empty}
    va = [p.name for p in ps if p.kind == p.VAR_POSITIONAL]
    kw = [p.name for p in ps if p.kind == p.VAR_KEYWORD]
    return {'positional': tuple(positional), 'required': tuple(required), 'optional': optional,
            'varargs': va[0] if va else None, 'kwargs': kw[0] if kw else None}


def sigstring(exp):
    parts = []
    for n in exp['positional']:
        parts.append(n + ('=' + repr(exp['optional'][n]) if n in exp['optional'] else ''))
    if exp['varargs']:
        parts.append('*' + exp['varargs'])
    if exp['kwargs']:
        parts.append('**' + exp['kwargs'])
    return '(%s)' % ', '.join(parts)


def check(spec):
    as_method = spec[7]
    f, src = make(*spec)
    f.tag1 = 'v1'
    f.tag2 = [2]
    bad = []
    if as_method:
        class K:
            pass
        K.f = f
        m = fromMethod(K().f, name='f')
        exp = expected(f, True)
        if spec[8]:
            # a defaulted self is dropped together with its default
            pass
    else:
        m = fromFunction(f)
        exp = expected(f, False)
    info = m.getSignatureInfo()
    got = dict(info)
    got['positional'] = tuple(got['positional'])
    got['required'] = tuple(got['required'])
    for k in ('positional', 'required', 'optional', 'varargs', 'kwargs'):
        if got[k] != exp[k]:
            bad.append(('getSignatureInfo.%s' % k, 'getSignatureInfo()[%r] is %r, inspect.signature says %r for: %s' % (
                k, got[k], exp[k], src.splitlines()[0])))
    if m.getSignatureString() != sigstring(exp):
        bad.append(('getSignatureString', 'getSignatureString() is %r, expected %r for: %s' % (
            m.getSignatureString(), sigstring(exp), src.splitlines()[0])))
    if m.queryTaggedValue('tag1') != 'v1' or m.queryTaggedValue('tag2') is not f.tag2 or \
            set(m.getTaggedValueTags()) != {'tag1', 'tag2'}:
        bad.append(('tagged-values', 'function attributes did not become tagged values for: %s' % src.splitlines()[0]))
    if m.getName() != 'f':
        bad.append(('name', 'description name is %r' % (m.getName(),)))
    return bad


def describe(m):
    got = dict(m.getSignatureInfo())
    got['positional'] = tuple(got['positional'])
    got['required'] = tuple(got['required'])
    return got


def compare(m, exp, what):
    bad = []
    got = describe(m)
    for k in ('positional', 'required', 'optional', 'varargs', 'kwargs'):
        if got[k] != exp[k]:
            bad.append(('history.getSignatureInfo.%s' % k, '%s: getSignatureInfo()[%r] is %r, inspect.signature says %r' % (what, k, got[k], exp[k])))
    if m.getSignatureString() != sigstring(exp):
        bad.append(('history.getSignatureString', '%s: getSignatureString() is %r, expected %r' % (what, m.getSignatureString(), sigstring(exp))))
    return bad


def check_histories():
    """descriptions must not depend on what was described before: functions sharing one code object with different
    defaults / attributes, the same function under both imlevels and as bound method, __defaults__ replaced in between"""
    bad = []

    def factory(default, strict):
        def getter(self, key, default=default, strict=strict, *rest, **opts):
            return key
        return getter
    fam = [factory('first', False), factory(None, True), factory(3, 'x')]
    fam[0].role = 'one'
    fam[1].role = 'two'
    for rnd in range(2):
        for i, f in enumerate(fam):
            m = fromFunction(f)
            bad += compare(m, expected(f, False), 'function #%d of a family sharing one code object (round %d, fromFunction)' % (i, rnd))
            m1 = fromFunction(f, imlevel=1)
            bad += compare(m1, expected(f, True), 'function #%d of a family sharing one code object (round %d, imlevel=1)' % (i, rnd))
            K = type('K', (), {'getter': f})
            mm = fromMethod(K().getter)
            bad += compare(mm, expected(f, True), 'bound method #%d of a family sharing one code object (round %d)' % (i, rnd))
            if i < 2 and m.queryTaggedValue('role') != f.role:
                bad.append(('history.tagged', 'function #%d of a family: tagged value role is %r, the function attribute is %r' % (
                    i, m.queryTaggedValue('role'), f.role)))
            if i == 2 and list(m.getTaggedValueTags()):
                bad.append(('history.tagged', 'function #2 of a family has no attributes but tagged values %r' % (list(m.getTaggedValueTags()),)))

    def g(a, b=1, c=2):
        return a
    bad += compare(fromFunction(g), expected(g, False), 'g before its __defaults__ are replaced')
    g.__defaults__ = (7, 8)
    bad += compare(fromFunction(g), expected(g, False), 'g after g.__defaults__ = (7, 8)')
    g.__defaults__ = (9,)
    bad += compare(fromFunction(g), expected(g, False), 'g after g.__defaults__ = (9,)')
    g.__defaults__ = None
    bad += compare(fromFunction(g), expected(g, False), 'g after g.__defaults__ = None')
    g.__defaults__ = (1, 2, 3)
    bad += compare(fromFunction(g), expected(g, False), 'g after g.__defaults__ = (1, 2, 3)')
    # returned descriptions are independent objects
    a, b = fromFunction(g), fromFunction(g)
    a.getSignatureInfo()['optional']['a'] = 'poison'
    a.optional['b'] = 'poison'
    bad += compare(b, expected(g, False), 'second description of g after the first one was mutated by its owner')
    bad += compare(fromFunction(g), expected(g, False), 'third description of g after the first one was mutated by its owner')
    return bad


ABSORBED = ['def f(*args): pass', 'def f(*args, **kw): pass', 'def f(*rest, k=1): pass', 'def f(*args, k, **kw): pass']


def check_absorbed():
    """bound methods whose implied self is taken by *args: nothing is to be dropped from the description"""
    bad = []
    for src in ABSORBED:
        ns = {}
        exec(src, ns)
        K = type('K', (), {'f': ns['f']})
        bad += compare(fromMethod(K().f), expected(K().f, False), 'bound method %r (self taken by the star parameter)' % src)
    return bad


def replay(spec):
    if spec == 'absorbed':
        bad = check_absorbed()
    else:
        bad = check(spec) if spec != 'histories' else check_histories()
    for sig, what in bad:
        print('violated:', sig, what)
    sys.exit(1 if bad else 0)


def run(ctx):
    ctx.rule = ('every signature with <=2 positional-only, <=2 positional, <=2 defaulted, optional *args, <=1+1 keyword-only '
                '(required/defaulted), optional **kw; as plain function and as bound method (self dropped; also self with '
                'a default; self taken by *args); oracle inspect.signature; plus description histories (functions sharing a code object, both imlevels, replaced __defaults__, mutated earlier descriptions); distinct = distinct signature shapes')
    ctx.bounds = 'parameters per kind <= 2'
    ctx.case('histories')
    for sig, what in check_histories():
        ctx.violation(sig, what, "from falsify.C18 import replay\nreplay('histories')\n")
    ctx.case('absorbed')
    for sig, what in check_absorbed():
        ctx.violation(sig, what, "from falsify.C18 import replay\nreplay('absorbed')\n")
    n = 0
    rng = [range(3), range(3), range(3), (False, True), range(2), range(2), (False, True)]
    for spec in itertools.product(*rng):
        for as_method, self_default in ((False, False), (True, False), (True, True)):
            full = spec + (as_method, self_default)
            if ctx.too_many():
                return
            ctx.case(full)
            n += 1
            if n == 77:
                ctx.sample({'signature': make(*full)[1].splitlines()[0], 'oracle': 'inspect.signature'})
            for sig, what in check(full):
                ctx.violation(sig, what, 'from falsify.C18 import replay\nreplay(%r)\n' % (full,))
